"""Debug-info (DWARF metadata in LLVM textual IR) helpers for ir2c:
 - member names for LLVM struct fields (so that contracts can say p->_count_flag instead of p->f1),
 - source file/line of instructions and functions.
Nothing semantic depends on this: when a name cannot be resolved the positional name f<k> is used.
"""
import re, collections

MD_LINE = re.compile(r'^!(\d+) = (?:distinct )?!(\w+)\((.*)\)\s*$')
MD_LIST = re.compile(r'^!(\d+) = (?:distinct )?!\{(.*)\}\s*$')


def split_fields(s):
    """split 'a: b, c: "x, y", d: !DIExpression(...)' into dict"""
    out = {}
    i = 0; n = len(s); depth = 0; cur = []; parts = []
    inq = False
    while i < n:
        c = s[i]
        if inq:
            cur.append(c)
            if c == '\\' and i + 1 < n:
                cur.append(s[i + 1]); i += 1
            elif c == '"':
                inq = False
        elif c == '"':
            inq = True; cur.append(c)
        elif c in '({[':
            depth += 1; cur.append(c)
        elif c in ')}]':
            depth -= 1; cur.append(c)
        elif c == ',' and depth == 0:
            parts.append(''.join(cur)); cur = []
        else:
            cur.append(c)
        i += 1
    if cur: parts.append(''.join(cur))
    for p in parts:
        p = p.strip()
        m = re.match(r'^(\w+):\s*(.*)$', p, re.S)
        if m:
            v = m.group(2).strip()
            if v.startswith('"') and v.endswith('"'): v = v[1:-1]
            out[m.group(1)] = v
    return out


class DebugInfo:
    def __init__(self, text):
        self.raw = {}
        self.lists = {}
        for ln in text.split('\n'):
            if not ln.startswith('!'): continue
            m = MD_LIST.match(ln)
            if m:
                self.lists[m.group(1)] = [x.strip().lstrip('!') for x in m.group(2).split(',') if x.strip().startswith('!')]
                continue
            m = MD_LINE.match(ln)
            if m:
                self.raw[m.group(1)] = (m.group(2), m.group(3))
        self.cache = {}

    def node(self, ref):
        if ref is None: return None
        ref = ref.lstrip('!')
        if ref in self.cache: return self.cache[ref]
        r = self.raw.get(ref)
        if r is None: return None
        d = split_fields(r[1]); d['_kind'] = r[0]; d['_id'] = ref
        self.cache[ref] = d
        return d

    # ---- locations
    def file_of(self, n):
        seen = 0
        while n is not None and seen < 50:
            seen += 1
            if n.get('_kind') == 'DIFile':
                return n.get('filename')
            if 'file' in n:
                f = self.node(n['file'])
                if f: return f.get('filename')
            n = self.node(n.get('scope'))
        return None

    def loc(self, ref):
        """!N of a DILocation -> (file, line)"""
        n = self.node(ref)
        if not n or n['_kind'] != 'DILocation': return None
        try: line = int(n.get('line', '0'))
        except ValueError: line = 0
        return (self.file_of(self.node(n.get('scope'))), line)

    def subprogram(self, ref):
        n = self.node(ref)
        if not n or n['_kind'] != 'DISubprogram': return None
        return (self.file_of(n), int(n.get('line', '0')), n.get('name'))

    # ---- types
    def strip(self, n):
        k = 0
        while n is not None and k < 50:
            k += 1
            if n['_kind'] == 'DIDerivedType' and n.get('tag') in ('DW_TAG_typedef', 'DW_TAG_const_type', 'DW_TAG_volatile_type', 'DW_TAG_atomic_type', 'DW_TAG_restrict_type'):
                n = self.node(n.get('baseType'))
            else:
                return n
        return n

    def qualname(self, n):
        parts = []
        k = 0
        while n is not None and k < 30:
            k += 1
            nm = n.get('name')
            if n['_kind'] in ('DICompositeType', 'DINamespace'):
                if nm is None: nm = '(anonymous namespace)' if n['_kind'] == 'DINamespace' else None
                if nm is None: return None
                parts.append(nm)
            elif n['_kind'] in ('DISubprogram', 'DILexicalBlock'):
                return None
            elif n['_kind'] in ('DIFile', 'DICompileUnit'):
                break
            n = self.node(n.get('scope'))
        return '::'.join(reversed(parts))


def c_ident(s):
    s = re.sub(r'<.*$', '', s)
    s = re.sub(r'[^A-Za-z0-9_]', '_', s)
    return s or 'x'


class Layout:
    def __init__(self, types):
        self.types = types

    def resolve(self, t):
        while t.k == 'named':
            t = self.types[t.name]
        return t

    def size_align(self, t):
        k = t.k
        if k == 'int':
            b = t.bits
            sz = 1
            while sz * 8 < b: sz *= 2
            return sz, min(sz, 16)
        if k == 'ptr': return 8, 8
        if k == 'fp':
            return {'float': (4, 4), 'double': (8, 8), 'half': (2, 2)}.get(t.name, (16, 16))
        if k == 'arr':
            s, a = self.size_align(t.el)
            return s * t.n, a
        if k == 'named':
            return self.size_align(self.types[t.name])
        if k == 'struct':
            off = 0; ma = 1
            for e in t.els:
                s, a = self.size_align(e)
                if t.packed: a = 1
                ma = max(ma, a)
                off = (off + a - 1) // a * a
                off += s
            off = (off + ma - 1) // ma * ma
            return off, ma
        if k == 'opaque': return 0, 1
        raise ValueError('size of ' + k)

    def offsets(self, t):
        t = self.resolve(t)
        offs = []; off = 0
        for e in t.els:
            s, a = self.size_align(e)
            if t.packed: a = 1
            off = (off + a - 1) // a * a
            offs.append(off)
            off += s
        return offs


class FieldNamer:
    """maps (llvm struct name, field index) -> C member name taken from the class definition"""
    def __init__(self, text, types):
        self.di = DebugInfo(text)
        self.types = types
        self.lay = Layout(types)
        self.map = {}          # llvm struct name -> dwarf node id
        self.names = {}        # llvm struct name -> [member names]
        self.text = text
        self._seed()

    def _seed(self):
        from ir2c import P, tokenize, Unsupported
        # 1. dbg.declare pairs
        pat = re.compile(r'call void @llvm\.dbg\.declare\(metadata (.*?) %(?:"[^"]*"|[-\w.$]+), metadata !(\d+),')
        seen = set()
        for m in pat.finditer(self.text):
            key = (m.group(1), m.group(2))
            if key in seen: continue
            seen.add(key)
            try:
                t = P(tokenize(m.group(1))).type()
            except Exception:
                continue
            var = self.di.node(m.group(2))
            if not var: continue
            dt = self.di.node(var.get('type'))
            # the llvm operand is a pointer to the variable's storage
            if t.k == 'ptr':
                self.unify(t.to, dt)
        # 2. unique qualified-name matches
        byq = collections.defaultdict(list)
        for ref, (kind, body) in self.di.raw.items():
            if kind == 'DICompositeType' and ('DW_TAG_class_type' in body or 'DW_TAG_structure_type' in body or 'DW_TAG_union_type' in body) and 'DIFlagFwdDecl' not in body:
                n = self.di.node(ref)
                q = self.di.qualname(n)
                if q: byq[re.sub(r'<[^<>]*(?:<[^<>]*(?:<[^<>]*>[^<>]*)*>[^<>]*)*>$', '', q)].append(n)
        byl = collections.defaultdict(list)
        for name in self.types:
            m = re.match(r'^(?:class|struct|union)\.(.*?)(?:\.\d+)?(?:\.base)?$', name)
            if m and not name.endswith('.base'):
                byl[m.group(1)].append(name)
        for q, names in byl.items():
            if len(names) == 1 and len(byq.get(q, [])) == 1 and names[0] not in self.map:
                self.unify_named(names[0], byq[q][0])

    def unify(self, t, d, depth=0):
        if d is None or depth > 40: return
        d = self.di.strip(d)
        if d is None: return
        if t.k == 'ptr':
            if d['_kind'] == 'DIDerivedType' and d.get('tag') in ('DW_TAG_pointer_type', 'DW_TAG_reference_type', 'DW_TAG_rvalue_reference_type'):
                self.unify(t.to, self.di.node(d.get('baseType')), depth + 1)
            return
        if t.k == 'arr':
            if d['_kind'] == 'DICompositeType' and d.get('tag') == 'DW_TAG_array_type':
                self.unify(t.el, self.di.node(d.get('baseType')), depth + 1)
            return
        if t.k == 'named':
            if d['_kind'] == 'DICompositeType' and d.get('tag') in ('DW_TAG_class_type', 'DW_TAG_structure_type', 'DW_TAG_union_type'):
                self.unify_named(t.name, d, depth)

    def unify_named(self, name, d, depth=0):
        if name in self.map: return
        lt = self.types.get(name)
        if lt is None or lt.k != 'struct': return
        if 'DIFlagFwdDecl' in d.get('flags', '') or 'elements' not in d:
            return
        sc = self.di.node(d.get('scope'))
        if sc is not None and sc.get('_kind') == 'DICompositeType' and sc.get('name') == '__coro_frame_ty':
            return      # synthetic member type of a coroutine frame's debug info: the real class definition is mapped through its own seeds
        self.map[name] = d['_id']
        if name.endswith('.base'):
            pass
        els = [self.di.node(x) for x in self.di.lists.get(d['elements'].lstrip('!'), [])]
        mem = []
        for e in els:
            if not e or e['_kind'] != 'DIDerivedType': continue
            if e.get('tag') not in ('DW_TAG_member', 'DW_TAG_inheritance'): continue
            if 'DIFlagStaticMember' in e.get('flags', ''): continue
            if 'DIFlagBitField' in e.get('flags', ''): continue
            try: off = int(e.get('offset', '0'))
            except ValueError: continue
            mem.append((off, e))
        names = [None] * len(lt.els)
        if d.get('tag') == 'DW_TAG_union_type':
            # llvm keeps one representative member; recurse by type-name match only
            for off, e in mem:
                bt = self.di.strip(self.di.node(e.get('baseType')))
                if bt and bt['_kind'] == 'DICompositeType':
                    q = self.di.qualname(bt)
                    for pre in ('struct.', 'class.', 'union.'):
                        if q and pre + q in self.types:
                            self.unify_named(pre + q, bt, depth + 1)
            self.names[name] = names
            return
        try:
            offs = self.lay.offsets(lt)
        except Exception:
            self.names[name] = names
            return
        used = set()
        for k, fo in enumerate(offs):
            ft = lt.els[k]
            cands = [e for off, e in mem if off == fo * 8]
            pick = None
            for e in cands:
                if e.get('tag') == 'DW_TAG_member' and e.get('name') and e.get('size', '1') != '0' and id(e) not in used:
                    pick = e; break
            if pick is None:
                for e in cands:
                    if e.get('tag') == 'DW_TAG_inheritance' and id(e) not in used:
                        # empty bases occupy no llvm field: only match when the llvm field is a struct
                        if self.lay.resolve(ft).k == 'struct':
                            pick = e; break
            if pick is None:
                for e in cands:
                    if e.get('tag') == 'DW_TAG_member' and not e.get('name') and id(e) not in used:
                        pick = e; break
            if pick is None: continue
            used.add(id(pick))
            if pick.get('tag') == 'DW_TAG_member' and pick.get('name'):
                names[k] = c_ident(pick['name'])
            elif pick.get('tag') == 'DW_TAG_inheritance':
                bt = self.di.strip(self.di.node(pick.get('baseType')))
                if bt is not None and bt.get('name'):
                    names[k] = 'base_' + c_ident(bt['name'])
            self.unify(ft, self.di.node(pick.get('baseType')), depth + 1)
        # make unique / valid
        seen = set()
        for k, nm in enumerate(names):
            if nm is None: continue
            if nm in seen or re.fullmatch(r'f\d+', nm):
                names[k] = None
            else:
                seen.add(nm)
        self.names[name] = names
        # the ".base" twin (tail-padding-free layout) shares the names
        if (name + '.base') in self.types and (name + '.base') not in self.map:
            self.unify_named(name + '.base', d, depth + 1)

    def fname(self, struct_name, idx):
        ns = self.names.get(struct_name)
        if ns and idx < len(ns) and ns[idx]:
            return ns[idx]
        return 'f%d' % idx
