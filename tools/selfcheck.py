#!/usr/bin/env python3
"""setup: nothing to build (Python + installed tools); verify the tools are present."""
import subprocess, sys
ok = True
for t in (['clang++-14', '--version'], ['cbmc', '--version'], ['goto-cc', '--version'], ['goto-instrument', '--version'], ['c++filt', '--version'], ['g++', '--version']):
    try:
        r = subprocess.run(t, capture_output=True, text=True, timeout=60)
        print(t[0], (r.stdout or r.stderr).split('\n')[0])
    except Exception as e:
        print('MISSING', t[0], e); ok = False
sys.exit(0 if ok else 1)
