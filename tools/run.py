#!/usr/bin/env python3
"""run.py - orchestrates the contract units of one property (DESIGN.md sections 4 and 8).

  run.py <Cxx> quick|thorough [--unit NAME]... [--keep] [--jobs N]

Pipeline per unit:  clang++ (driver TU + real headers in /repo) -> ir2c -> goto-cc -> goto-instrument --dfcc -> cbmc.
Exit 0: every obligation discharged (or matched by an open known finding); 1: VIOLATION; 2: UNDECIDED (tool/extraction/timeout).
"""
import sys, os, re, json, time, subprocess, tempfile, shutil, argparse, importlib.util, concurrent.futures, hashlib, traceback

VERIF = os.path.dirname(os.path.dirname(os.path.abspath(__file__)))
REPO = os.environ.get('COCLS_REPO', '/repo')
TOOLS = os.path.join(VERIF, 'tools')
LIB = os.path.join(VERIF, 'lib')
CLANG = 'clang++-14'
CLANG_FLAGS = ['-std=c++20', '-DNDEBUG', '-O0', '-g', '-fno-discard-value-names', '-S', '-emit-llvm', '-Xclang', '-disable-O0-optnone']
CLANG_FLAGS = ['-std=c++20', '-DNDEBUG', '-O0', '-g', '-fstandalone-debug', '-fno-discard-value-names', '-S', '-emit-llvm']
CBMC_DEFAULT = ['--no-malloc-may-fail', '--no-signed-overflow-check', '--no-pointer-primitive-check']

class Undecided(Exception):
    pass

def sh(cmd, cwd=None, timeout=None, mem_gb=None, stdout=None):
    pre = ''
    if mem_gb:
        pre = 'ulimit -v %d; ' % int(mem_gb * 1024 * 1024)
    t0 = time.time()
    try:
        p = subprocess.run(['bash', '-c', pre + 'exec "$@"', 'sh'] + cmd, cwd=cwd, capture_output=True, text=True, timeout=timeout)
    except subprocess.TimeoutExpired as e:
        return dict(rc=-9, out=(e.stdout or b'').decode('utf8', 'replace') if isinstance(e.stdout, bytes) else (e.stdout or ''), err='TIMEOUT after %ss' % timeout, wall=time.time() - t0, timeout=True)
    return dict(rc=p.returncode, out=p.stdout, err=p.stderr, wall=time.time() - t0, timeout=False)

def load_units(prop):
    path = os.path.join(VERIF, 'specs', prop, 'units.py')
    if not os.path.exists(path):
        raise SystemExit('no units for %s' % prop)
    spec = importlib.util.spec_from_file_location('units_' + prop, path)
    mod = importlib.util.module_from_spec(spec); spec.loader.exec_module(mod)
    return mod

def compile_driver(driver, scratch, extra_flags=()):
    """driver TU (in /verif/drivers) + real headers of the current /repo working tree -> LLVM IR"""
    src = os.path.join(VERIF, 'drivers', driver)
    key = hashlib.sha1((driver + ' '.join(extra_flags)).encode()).hexdigest()[:10]
    out = os.path.join(scratch, 'drv_%s_%s.ll' % (os.path.splitext(os.path.basename(driver))[0], key))
    if os.path.exists(out):
        return out
    r = sh([CLANG] + CLANG_FLAGS + list(extra_flags) + ['-I', os.path.join(REPO, 'src'), '-I', os.path.join(VERIF, 'drivers'), src, '-o', out + '.tmp'], timeout=300)
    if r['rc'] != 0:
        raise Undecided('clang failed on %s: %s' % (driver, r['err'][-2000:]))
    os.rename(out + '.tmp', out)
    return out

def run_unit(prop, u, tier, scratch, keep=False):
    """returns dict(unit=..., status='ok'|'undecided', results=[...], ...)"""
    name = u['name']
    t0 = time.time()
    res = dict(unit=name, kind=u.get('kind', 'contract'), bounded=u.get('bounded'), status='undecided', reason=None, results=[], wall=0.0, solver_s=None,
               backend=u.get('solver', 'sat(minisat, cbmc default)'), functions=[], boundary=[], atomics=[], cmds=[])
    try:
        wd = os.path.join(scratch, name); os.makedirs(wd, exist_ok=True)
        ll = compile_driver(u['driver'], scratch, tuple(u.get('clang_flags', ())))
        # ---- ir2c
        cmd = [sys.executable, os.path.join(TOOLS, 'ir2c.py'), ll, '--out', os.path.join(wd, 'u')]
        for r in u['roots']: cmd += ['--root', r]
        for b in u.get('boundary', []): cmd += ['--boundary', b]
        for k, v in u.get('names', {}).items(): cmd += ['--name', '%s=%s' % (k, v)]
        for k, v in u.get('names_opt', {}).items(): cmd += ['--name-opt', '%s=%s' % (k, v)]
        for k, v in u.get('types', {}).items(): cmd += ['--type', '%s=%s' % (k, v)]
        for k, v in u.get('globals', {}).items(): cmd += ['--global', '%s=%s' % (k, v)]
        for k, v in u.get('ptypes', {}).items(): cmd += ['--ptype', '%s=%s' % (k, v)]
        for k, v in u.get('perms', {}).items(): cmd += ['--perm', '%s=%s' % (k, v)]
        r = sh(cmd, timeout=300)
        res['cmds'].append('ir2c ' + ' '.join(cmd[3:]))
        if r['rc'] != 0:
            raise Undecided('ir2c: ' + r['err'].strip()[-1500:])
        summ = json.load(open(os.path.join(wd, 'u.json')))
        for f in summ['functions']: DEMANGLE[f['c']] = f['demangled']
        for b in summ['boundary']: DEMANGLE[re.sub(r'[^A-Za-z0-9_]', '_', b['mangled'])] = b['demangled']
        res['functions'] = [dict(name=f['demangled'], src=f['src'], loops=f['loops']) for f in summ['functions']]
        res['boundary'] = [b['demangled'] for b in summ['boundary']]
        res['atomics'] = summ.get('atomics', [])
        # ---- compose TU
        tu = ['#include "cv_prelude.h"', '#include "u_decl.h"']
        for d in u.get('defines', []): tu.insert(0, '#define %s' % d)
        tu.insert(0, '#define CV_TIER_%s 1' % tier.upper())
        for l in u.get('lib', ['rt_core.c', 'rt_atomic_seq.c']): tu.append('#include "%s"' % os.path.join(LIB, l))
        for s in u.get('spec', []): tu.append('#include "%s"' % os.path.join(VERIF, 'specs', s))
        tu.append('#include "u_body.c"')
        open(os.path.join(wd, 'tu.c'), 'w').write('\n'.join(tu) + '\n')
        harness = u['harness']
        cmd = ['goto-cc', '--function', harness, '-I', LIB, '-I', wd, '-I', os.path.join(VERIF, 'specs'), '-o', 'a.gb', 'tu.c']
        r = sh(cmd, cwd=wd, timeout=300)
        res['cmds'].append(' '.join(cmd))
        if r['rc'] != 0:
            raise Undecided('goto-cc: ' + (r['err'] + r['out']).strip()[-2500:])
        gb = 'a.gb'
        # resolve alias names for enforce / replace
        al = summ.get('aliases', {})
        def cname(n):
            if n in al: return re.sub(r'[^A-Za-z0-9_]', '_', al[n])
            return n
        if u.get('enforce') or u.get('replace') or u.get('loop_contracts'):
            cmd = ['goto-instrument', '--dfcc', harness]
            if u.get('enforce'): cmd += ['--enforce-contract', cname(u['enforce'])]
            for g in u.get('replace', []): cmd += ['--replace-call-with-contract', cname(g)]
            if u.get('loop_contracts'): cmd += ['--apply-loop-contracts']
            cmd += u.get('gi_flags', [])
            cmd += ['a.gb', 'b.gb']
            r = sh(cmd, cwd=wd, timeout=600, mem_gb=16)
            res['cmds'].append(' '.join(cmd))
            if r['rc'] != 0:
                raise Undecided('goto-instrument: ' + (r['err'] + r['out']).strip()[-2500:])
            gb = 'b.gb'
        cmd = ['cbmc', gb, '--json-ui', '--trace', '--verbosity', '8'] + CBMC_DEFAULT + u.get('cbmc_flags', [])
        if u.get('unwind'):
            n = u['unwind'][tier] if isinstance(u['unwind'], dict) else u['unwind']
            cmd += ['--unwind', str(n), '--unwinding-assertions']
        if u.get('unwindset'): cmd += ['--unwindset', ','.join(u['unwindset'])]
        if u.get('solver_flag'): cmd += [u['solver_flag']]
        if u.get('object_bits'): cmd += ['--object-bits', str(u['object_bits'])]
        tmo = u.get('timeout', {}).get(tier, 600) if isinstance(u.get('timeout'), dict) else u.get('timeout', 240 if tier == 'quick' else 3600)
        r = sh(cmd, cwd=wd, timeout=tmo, mem_gb=u.get('mem_gb', 16))
        res['cmds'].append(' '.join(cmd))
        res['solver_wall'] = r['wall']
        open(os.path.join(wd, 'cbmc.json'), 'w').write(r['out'])
        if r['timeout']:
            raise Undecided('cbmc timeout after %ss' % tmo)
        try:
            js = json.loads(r['out'])
        except Exception:
            raise Undecided('cbmc produced no JSON (rc=%s): %s' % (r['rc'], (r['out'][-800:] + r['err'][-800:])))
        results = None; msgs = []
        for item in js:
            if 'result' in item: results = item['result']
            if 'messageText' in item:
                msgs.append(item['messageText'])
            if 'cProverStatus' in item: res['cprover_status'] = item['cProverStatus']
        for mtxt in msgs:
            mm = re.search(r'Runtime decision procedure: ([\d.]+)s', mtxt)
            if mm: res['solver_s'] = (res['solver_s'] or 0) + float(mm.group(1))
            if 'ignoring' in mtxt and ('forall' in mtxt or 'exists' in mtxt):
                raise Undecided('back end ignored a quantifier: ' + mtxt)
        if results is None:
            errs = [m for m in msgs if 'rror' in m or 'failed' in m]
            raise Undecided('cbmc gave no result (rc=%s): %s' % (r['rc'], ' | '.join(errs[-5:]) or ' | '.join(msgs[-5:])))
        out = []
        for pr in results:
            loc = pr.get('sourceLocation', {})
            d = dict(id=pr.get('property'), desc=pr.get('description', ''), status=pr.get('status'),
                     file=loc.get('file'), line=loc.get('line'), fn=loc.get('function'))
            if pr.get('status') == 'FAILURE' and pr.get('trace'):
                d['trace'] = compact_trace(pr['trace'])
            out.append(d)
        res['results'] = out
        # ---- thorough tier: second back end must agree obligation by obligation (guards against a solver defect)
        if tier == 'thorough' and not u.get('solver_flag') and u.get('cross_check', not u.get('bounded')) and os.environ.get('VERIF_NO_CROSSCHECK') != '1':
            second = 'minisat2' if 'cadical' in ' '.join(u.get('cbmc_flags', [])) else 'cadical'
            cmd2 = [c for c in cmd if c not in ('--trace',)]
            if '--sat-solver' in cmd2:
                i = cmd2.index('--sat-solver'); del cmd2[i:i + 2]
            cmd2 += ['--sat-solver', second]
            r2 = sh(cmd2, cwd=wd, timeout=tmo, mem_gb=u.get('mem_gb', 16))
            res['cmds'].append(' '.join(cmd2))
            if r2['timeout']:
                res['cross_check'] = dict(backend='sat(%s)' % second, status='timeout after %ss (first back end stands alone)' % tmo)
            else:
                try:
                    st2 = {}
                    for item in json.loads(r2['out']):
                        for pr in item.get('result', []) if isinstance(item, dict) else []:
                            st2[pr.get('property')] = pr.get('status')
                except Exception:
                    st2 = None
                if not st2:
                    res['cross_check'] = dict(backend='sat(%s)' % second, status='no result (first back end stands alone)')
                else:
                    dis = [d['id'] for d in out if st2.get(d['id']) != d['status'] and not (d['status'] == 'UNKNOWN' or st2.get(d['id']) == 'UNKNOWN')]
                    if dis:
                        raise Undecided('back ends disagree on %d obligations (first: %s): e.g. %s' % (len(dis), res['backend'], dis[:3]))
                    res['cross_check'] = dict(backend='sat(%s)' % second, status='agrees on all %d obligations' % len(out), wall_s=round(r2['wall'], 2))
        res['status'] = 'ok'
    except Undecided as e:
        res['reason'] = str(e)
    except Exception as e:
        res['reason'] = 'internal error: %s\n%s' % (e, traceback.format_exc()[-1500:])
    res['wall'] = time.time() - t0
    if not keep and res['status'] == 'ok':
        # keep only the small files needed for replay reports
        for fn in ('a.gb', 'b.gb'):
            try: os.remove(os.path.join(scratch, name, fn))
            except OSError: pass
    return res

def compact_trace(trace):
    """keep assignments to named inputs/ghosts and the failing location"""
    out = []
    for st in trace:
        t = st.get('stepType')
        loc = st.get('sourceLocation', {})
        if t == 'assignment':
            lhs = st.get('lhs', '')
            if st.get('hidden') or lhs.startswith('__CPROVER') or '$' in lhs or lhs.startswith('return_value') or lhs.startswith('tmp_'):
                continue
            v = st.get('value', {})
            out.append(dict(lhs=lhs, value=v.get('data', v.get('name')), file=loc.get('file'), line=loc.get('line'), fn=loc.get('function')))
        elif t == 'failure':
            out.append(dict(failure=st.get('reason'), file=loc.get('file'), line=loc.get('line'), fn=loc.get('function'), property=st.get('property')))
        elif t in ('function-call',):
            f = st.get('function', {}).get('displayName')
            if f and not f.startswith('__CPROVER'):
                out.append(dict(call=f, file=loc.get('file'), line=loc.get('line')))
    # cap size: keep head and tail
    if len(out) > 400:
        out = out[:150] + [dict(elided=len(out) - 300)] + out[-150:]
    return out

SENT = 'SENTINEL'

def classify(u, pr):
    """'sentinel' (must FAIL: reachability), or 'obligation'"""
    if SENT in pr['desc']:
        return 'sentinel'
    return 'obligation'

_src_cache = {}
def src_line(path, line):
    try:
        if path not in _src_cache:
            _src_cache[path] = open(path, errors='replace').read().split('\n')
        return _src_cache[path][int(line) - 1].strip()
    except Exception:
        return ''

def obligation_name(prop, u, pr):
    loc = ''; clause = ''
    if pr.get('file') and pr.get('line'):
        loc = ' @%s:%s' % (os.path.basename(pr['file']), pr['line'])
        f = pr['file']
        if f.startswith(os.path.join(VERIF, 'specs')) or f.startswith(LIB):
            t = src_line(f, pr['line'])
            if t.startswith('__CPROVER_') or 'assert' in t: clause = ' {%s}' % t[:220]
    return '%s/%s/%s [%s]%s%s' % (prop, u['name'], pr['id'], re.sub(r'_Z\w+', lambda m: DEMANGLE.get(m.group(0), m.group(0)), pr['desc']), loc, clause)

DEMANGLE = {}

def finding_matches(kf, prop, unit, pr):
    # a unit re-run under another property (name prefix 'Cxx_', e.g. C03 / C20 import units of C11) keeps the open findings of the property it comes from:
    # they are reported as KNOWN-FINDING there too, never as a violation of the importing property
    if kf.get('property') != prop and not unit.startswith(str(kf.get('property')) + '_'): return False
    if kf.get('unit') and kf['unit'] != unit: return False
    m = kf.get('match', {})
    if 'desc' in m and m['desc'] not in pr['desc']: return False
    if 'fn' in m and m['fn'] != (pr.get('fn') or ''): return False
    if 'id_prefix' in m and not (pr.get('id') or '').startswith(m['id_prefix']): return False
    if 'clause' in m and m['clause'] not in (src_line(pr.get('file'), pr.get('line')) if pr.get('file') and pr.get('line') else ''): return False
    return True

def main():
    ap = argparse.ArgumentParser()
    ap.add_argument('prop'); ap.add_argument('tier', nargs='?', default=os.environ.get('VERIF_TIER', 'quick'))
    ap.add_argument('--unit', action='append'); ap.add_argument('--keep', action='store_true')
    ap.add_argument('--jobs', type=int, default=int(os.environ.get('VERIF_JOBS', '14')))
    ap.add_argument('--no-evidence', action='store_true')
    ap.add_argument('-v', action='store_true')
    a = ap.parse_args()
    prop = a.prop; tier = a.tier if a.tier in ('quick', 'thorough') else 'quick'
    t0 = time.time()
    mod = load_units(prop)
    units = [u for u in mod.UNITS if tier in u.get('tiers', ['quick', 'thorough'])]
    if a.unit: units = [u for u in units if u['name'] in a.unit]
    scratch = tempfile.mkdtemp(prefix='cocls-verif-%s-' % prop, dir=os.environ.get('TMPDIR', '/tmp'))
    kfs = json.load(open(os.path.join(VERIF, 'known_findings.json'))) if os.path.exists(os.path.join(VERIF, 'known_findings.json')) else []
    open_kfs = [k for k in kfs if k.get('status') == 'open']
    try:
        # compile each driver once, up front (units share them)
        undec_pre = {}
        for key in sorted(set((u['driver'], tuple(u.get('clang_flags', ()))) for u in units)):
            try: compile_driver(key[0], scratch, key[1])
            except Undecided as e: undec_pre[key] = str(e)
        with concurrent.futures.ThreadPoolExecutor(max_workers=a.jobs) as ex:
            futs = [ex.submit(run_unit, prop, u, tier, scratch, a.keep) for u in units]
            results = [f.result() for f in futs]
        # ---- verdict
        violations = []; known = []; undecided = []; n_obl = n_dis = 0; n_b_obl = n_b_dis = 0
        samples = []; per_unit = []
        replay_dir = os.path.join(VERIF, 'replay_out', prop)
        for u, r in zip(units, results):
            pu = dict(unit=r['unit'], kind=r['kind'], bounded=r.get('bounded'), status=r['status'], wall_s=round(r['wall'], 2),
                      solver_s=r.get('solver_s'), backend=r['backend'], functions_under_contract=u.get('under_contract', []),
                      translated_functions=len(r['functions']), assumed_contracts=r['boundary'], obligations=0, discharged=0)
            if r.get('cross_check'): pu['cross_check'] = r['cross_check']
            pu['translated_cocls_functions'] = sorted(set(f['name'] for f in r['functions'] if 'cocls' in (f.get('src') or '') or f['name'].startswith('cocls::') or ' cocls::' in f['name']))[:400]
            if r['status'] != 'ok':
                undecided.append((u, r)); per_unit.append(pu); continue
            sentinel_seen = sentinel_failed = 0
            for pr in r['results']:
                c = classify(u, pr)
                if c == 'sentinel':
                    sentinel_seen += 1
                    if pr['status'] == 'FAILURE': sentinel_failed += 1
                    continue
                pu['obligations'] += 1
                if pr['status'] == 'SUCCESS':
                    pu['discharged'] += 1
                    if len(samples) < 12 and pr['desc'] and not pr['desc'].startswith('dereference') and (len(samples) < 4 or hash(pr['desc']) % 7 == 0):
                        samples.append(obligation_name(prop, u, pr))
                elif pr['status'] == 'FAILURE' and pr['desc'].startswith('unwinding assertion') and not u.get('unwind_is_invariant'):
                    undecided.append((u, dict(r, reason='unwinding bound too small: %s at %s:%s' % (pr['id'], pr.get('file'), pr.get('line')))))
                elif pr['status'] == 'FAILURE' and 'indirect call: callee not among address-taken functions' in pr['desc']:
                    # ir2c's devirtualising dispatcher met a function pointer it cannot resolve: extraction limit, not a violation
                    undecided.append((u, dict(r, reason='unresolvable indirect call in the translated code: %s' % obligation_name(prop, u, pr)[:220])))
                elif pr['status'] == 'FAILURE' and 'undefined function should be unreachable' in pr['desc']:
                    # DFCC gives body-less functions the body assert(false): the code reached a dependency for which no model / assumed
                    # contract exists - the unit cannot decide anything about that path (not a violation)
                    undecided.append((u, dict(r, reason='unmodelled callee reached: %s' % obligation_name(prop, u, pr)[:220])))
                elif pr['status'] == 'FAILURE':
                    kf = next((k for k in open_kfs if finding_matches(k, prop, u['name'], pr)), None)
                    if kf:
                        known.append((kf, u, pr))
                        pu['obligations'] -= 1; pu['known_finding_obligations'] = pu.get('known_finding_obligations', 0) + 1   # reported separately, neither discharged nor counted as proved
                    elif u.get('on_fail') == 'undecided':
                        # the unit proves a statement STRONGER than this property (e.g. position-wise order where the property only asks
                        # for exactly-once): a failed proof there leaves this property undecided, it is not a violation of it
                        undecided.append((u, dict(r, reason='proof of a stronger statement failed (%s): %s' % (u.get('on_fail_note', 'see unit note'), obligation_name(prop, u, pr)[:200]))))
                    else: violations.append((u, r, pr))
                elif pr['status'] == 'UNKNOWN' and any(x['status'] == 'FAILURE' and classify(u, x) != 'sentinel' for x in r['results']):
                    pass      # cbmc leaves obligations behind a failed one undecided; the failure itself is reported
                else:
                    undecided.append((u, dict(r, reason='obligation %s has status %s' % (pr['id'], pr['status']))))
            if u.get('sentinel', True) and (sentinel_seen == 0 or sentinel_failed != sentinel_seen):
                undecided.append((u, dict(r, reason='vacuity: %d of %d reachability sentinels reachable (contradictory preconditions?)' % (sentinel_failed, sentinel_seen))))
            if pu['obligations'] == 0:
                undecided.append((u, dict(r, reason='vacuity: unit generated no obligations')))
            if r.get('bounded'):
                n_b_obl += pu['obligations']; n_b_dis += pu['discharged']
            else:
                n_obl += pu['obligations']; n_dis += pu['discharged']
            per_unit.append(pu)
        rc = 0
        lines = []
        seen_kf = set()
        for kf, u, pr in known:
            if kf['id'] in seen_kf: continue
            seen_kf.add(kf['id'])
            lines.append('KNOWN-FINDING: property=%s %s' % (prop, kf['what']))
        if violations:
            rc = 1
            os.makedirs(replay_dir, exist_ok=True)
            import replay as replay_mod
            vcount = {}
            for u, r, pr in violations:
                path = os.path.join(replay_dir, '%s-%s.json' % (u['name'], re.sub(r'[^A-Za-z0-9_.]', '_', pr['id'] or 'x')))
                rep = dict(property=prop, unit=u['name'], obligation=obligation_name(prop, u, pr), cbmc_property=pr['id'], description=pr['desc'],
                           location=dict(file=pr.get('file'), line=pr.get('line'), function=pr.get('fn')), checker_cmds=r['cmds'],
                           verifier_output=pr.get('trace', []), functions_under_contract=u.get('under_contract', []))
                tail = ''
                try:
                    nat = replay_mod.native_replay(prop, u, pr, scratch, REPO, VERIF)
                except Exception as e:
                    nat = dict(replayed='no', reason='replay machinery error: %s' % e)
                rep['native_replay'] = nat
                if nat.get('replayed') not in ('native', 'tsan', 'schedule'):
                    tail = ' no-failing-input-found'
                json.dump(rep, open(path, 'w'), indent=1)
                vcount[u['name']] = vcount.get(u['name'], 0) + 1
                if vcount[u['name']] <= 6:
                    lines.append('VIOLATION property=%s replay=%s obligation="%s"%s' % (prop, path, obligation_name(prop, u, pr)[:300], tail))
                elif vcount[u['name']] == 7:
                    lines.append('  (further failed obligations of unit %s: see %s/)' % (u['name'], replay_dir))
        if undecided and rc == 0:
            rc = 2
        und_by_unit = {}
        for u, r in undecided:
            und_by_unit.setdefault(u['name'], []).append((r.get('reason') or '').replace('\n', ' '))
        for un, rs in und_by_unit.items():
            lines.append('UNDECIDED property=%s unit=%s reason=%s%s' % (prop, un, rs[0][:1500], (' (+%d more)' % (len(rs) - 1)) if len(rs) > 1 else ''))
        for ln in lines: print(ln)
        wall = time.time() - t0
        print('%s %s: units=%d obligations=%d discharged=%d bounded_obligations=%d/%d violations=%d known=%d undecided=%d wall=%.1fs' % (
            prop, tier, len(units), n_obl, n_dis, n_b_dis, n_b_obl, len(violations), len(seen_kf), len(undecided), wall))
        if a.v:
            for pu in per_unit: print('  ', json.dumps(pu)[:400])
        if not a.no_evidence and not a.unit:
            meta = getattr(mod, 'META', {})
            assumptions = list(meta.get('assumptions', [])) + COMMON_ASSUMPTIONS
            tb = list(meta.get('trusted_base', [])) + COMMON_TRUSTED
            ev = dict(property_id=prop, tier=tier, seed=int(os.environ.get('VERIF_SEED', '0') or 0), level=meta.get('level', 'proof'),
                      coverage=dict(obligations=n_obl, discharged=n_dis,
                                    checker_cmd='clang++-14 -std=c++20 -DNDEBUG -O0 -g -S -emit-llvm <driver>.cpp -I/repo/src | tools/ir2c.py | goto-cc --function <harness> | goto-instrument --dfcc <harness> --enforce-contract <f> --replace-call-with-contract <g>.. --apply-loop-contracts | cbmc --json-ui (cbmc 6.11.0); per-unit command lines are in units[].',
                                    trusted_base=tb, samples=samples[:12],
                                    bounded=[dict(unit=p['unit'], bound=p['bounded'], obligations=p['obligations'], discharged=p['discharged']) for p in per_unit if p.get('bounded')],
                                    bounded_obligations=n_b_obl, bounded_discharged=n_b_dis,
                                    units=per_unit,
                                    functions_under_contract=sorted(set(f for u in units for f in u.get('under_contract', []))),
                                    known_findings=[k['what'] for k in open_kfs if k['id'] in seen_kf],
                                    known_finding_obligations=sum(p.get('known_finding_obligations', 0) for p in per_unit),
                                    undecided=[dict(unit=u['name'], reason=(r.get('reason') or '')[:300]) for u, r in undecided],
                                    explanation=meta.get('explanation', '')),
                      assumptions=assumptions, wall_s=round(wall, 2), violations=len(violations))
            os.makedirs(os.path.join(VERIF, 'evidence'), exist_ok=True)
            json.dump(ev, open(os.path.join(VERIF, 'evidence', prop + '.json'), 'w'), indent=1)
        return rc
    finally:
        if a.keep:
            print('scratch kept: ' + scratch)
        else:
            shutil.rmtree(scratch, ignore_errors=True)

COMMON_TRUSTED = [
    'clang 14 front end (-O0) as the reader of the C++ headers instead of g++ 12 -O2; optimiser/code generator of shipped binaries not covered',
    'ir2c (tools/ir2c.py): mechanical LLVM IR -> C translation, run on every check from /repo working tree',
    'primitives in lib/ (heap, exceptions over a pending flag, atomic instruction stubs, llvm intrinsics)',
    'CBMC 6.11.0 (goto-cc, goto-instrument --dfcc, cbmc) and its SAT back end',
]
COMMON_ASSUMPTIONS = [
    'thread_local variables are one global per unit (each proof is about one thread)',
    'operator new never fails (bad_alloc assumed away); exception objects are opaque (type identity only)',
    'machine integers are modelled bit-precisely (no mathematical-integer abstraction)',
    'functions not listed under functions_under_contract are not covered',
]

if __name__ == '__main__':
    sys.exit(main())
