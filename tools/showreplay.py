#!/usr/bin/env python3
"""prints a replay file: the failed obligation, the verifier's counterexample and the outcome of the native replay"""
import json, sys
r = json.load(open(sys.argv[1]))
print('property   :', r['property']); print('unit       :', r['unit']); print('obligation :', r['obligation'])
print('location   :', r['location'])
print('native     :', json.dumps(r.get('native_replay'), indent=1)[:3000])
print('verifier output (compact trace):')
for st in r.get('verifier_output', [])[-60:]:
    print('  ', json.dumps(st)[:300])
