#!/usr/bin/env python3
"""coverage.py - which cocls:: functions instantiated by the driver TUs are translated (= executed symbolically, under contract or inlined
into a unit) by at least one unit of the last runs (evidence/*.json), and which are in no unit (blind spots).  Informational."""
import os, sys, json, glob, subprocess, re, tempfile
V = os.path.dirname(os.path.dirname(os.path.abspath(__file__)))
REPO = os.environ.get('COCLS_REPO', '/repo')
covered = {}
for p in glob.glob(os.path.join(V, 'evidence', 'C*.json')):
    e = json.load(open(p))
    for u in e['coverage'].get('units', []):
        for f in u.get('translated_cocls_functions', []): covered.setdefault(f, set()).add(e['property_id'])
universe = {}
tmp = tempfile.mkdtemp(prefix='cov-')
for d in sorted(glob.glob(os.path.join(V, 'drivers', 'c*.cpp'))):
    ll = os.path.join(tmp, os.path.basename(d) + '.ll')
    r = subprocess.run(['clang++-14', '-std=c++20', '-DNDEBUG', '-O0', '-g', '-fstandalone-debug', '-fno-discard-value-names', '-S', '-emit-llvm', '-I', os.path.join(REPO, 'src'), '-I', os.path.join(V, 'drivers'), d, '-o', ll], capture_output=True, text=True)
    if r.returncode: print('skip', d, r.stderr[-200:]); continue
    out = subprocess.run([sys.executable, os.path.join(V, 'tools', 'ir2c.py'), ll, '--list'], capture_output=True, text=True).stdout
    for l in out.split('\n'):
        m = re.match(r'D (\S+) (.*)', l)
        if not m: continue
        nm = m.group(2); head = nm.split('(')[0]
        own = head.split(' ')[-1] if not head.startswith('cocls::') else head      # qualified name of the function itself (return type stripped)
        if own.startswith('cocls::') or head.startswith('cocls::'): universe.setdefault(nm, set()).add(os.path.basename(d))
subprocess.run(['rm', '-rf', tmp])
unc = sorted(f for f in universe if f not in covered)
print('instantiated cocls functions: %d, in at least one unit: %d, in no unit: %d' % (len(universe), len(universe) - len(unc), len(unc)))
for f in unc: print('  -', f[:200], '  [', ','.join(sorted(universe[f])), ']')
