"""replay.py - confront a failed obligation with the real C++ (DESIGN.md section 4.3)."""
import os, json, subprocess, re

def native_replay(prop, unit, pr, scratch, repo, verif):
    rp = unit.get('replay')
    if not rp:
        return dict(replayed='no', reason='no native replay registered for this unit')
    src = os.path.join(verif, 'replay', rp['src'])
    exe = os.path.join(scratch, 'replay_' + unit['name'])
    flags = rp.get('flags', ['-fno-access-control', '-D_GLIBCXX_ASSERTIONS', '-fsanitize=address,undefined', '-g'])
    comp = rp.get('compiler', 'g++')
    r = subprocess.run([comp, '-std=c++20', '-O1', '-I', os.path.join(repo, 'src')] + flags + [src, '-o', exe, '-lpthread'], capture_output=True, text=True, timeout=600)
    if r.returncode != 0:
        return dict(replayed='no', reason='replay build failed: ' + r.stderr[-1500:])
    # inputs: values of harness variables named in_* taken from the trace (last assignment wins)
    vals = {}
    for st in pr.get('trace', []):
        lhs = st.get('lhs')
        if lhs and re.match(r'^(in|gh)_\w+$', lhs) and st.get('value') is not None:
            vals[lhs] = str(st['value'])
    args = [rp.get('mode', prop)] + ['%s=%s' % kv for kv in sorted(vals.items())]
    try:
        r = subprocess.run([exe] + args, capture_output=True, text=True, timeout=rp.get('timeout', 120))
    except subprocess.TimeoutExpired:
        return dict(replayed=rp.get('kind', 'native'), outcome='timeout (hang) on the real code', inputs=vals)
    out = (r.stdout + r.stderr)[-4000:]
    if r.returncode != 0:
        return dict(replayed=rp.get('kind', 'native'), outcome='real code misbehaves with these inputs (exit %d)' % r.returncode, inputs=vals, output=out)
    return dict(replayed='no', reason='real code behaved correctly on the extracted inputs (translation-suspect or input-independent obligation)', inputs=vals, output=out)
