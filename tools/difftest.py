#!/usr/bin/env python3
"""difftest.py [case ...] [--rounds N] [--keep]   -   translation validation of tools/ir2c.py by differential execution (DESIGN 2.2, mitigation b).

The verifier never sees C++: it sees the C text ir2c produces from clang's IR of the real headers.  ir2c is therefore part of the trusted
base.  This self-test shrinks that trust: for the scripted scenarios of the driver TUs (`extern "C" int drive_X(int)`, the same functions
the bounded drives hand to CBMC) it
  1. translates the scenario with EVERYTHING it calls (no boundary: libstdc++ containers, lowered coroutines, exception tables included)
     from the current /repo working tree with the same clang flags and the same ir2c as the checks,
  2. compiles that C text NATIVELY (gcc) with the same lib/rt_core.c + lib/rt_atomic_seq.c primitives (the __CPROVER_assert / assume of
     the primitives abort), prefixes every symbol it defines with T_,
  3. links it with the driver TU itself compiled from the real headers by g++ -O2 (the compiler and optimisation level of the shipped
     binaries), and
  4. runs both versions on the same inputs (fixed edge values + pseudo-random ints) and compares the return value and every `g_*`
     observation global byte by byte (body runs, constructor / destructor counts, values / exceptions seen, allocator traffic ...).
A difference, an abort inside the translated text, or a crash is reported as a translator / primitive defect (exit 1); tool problems exit 2.
This is a test, not a proof: it samples inputs.  It is registered as supporting evidence only (never as the deciding step of a property)."""
import sys, os, re, json, subprocess, tempfile, shutil, time
TOOLS = os.path.dirname(os.path.abspath(__file__)); VERIF = os.path.dirname(TOOLS)
REPO = os.environ.get('COCLS_REPO', '/repo')
sys.path.insert(0, TOOLS)
CLANG_FLAGS = ['-std=c++20', '-DNDEBUG', '-O0', '-g', '-fstandalone-debug', '-fno-discard-value-names', '-S', '-emit-llvm']

CASES = {
    # name: (driver, regex of scenario functions `int|void f(int, ...)`, observation globals to skip, {parameter-name regex: (lo, hi)} for SHAPE
    #        parameters (script length, access style, ...; every other parameter is a VALUE: edge values + pseudo-random 32-bit ints))
    # skipped globals: addresses, and coroutine frame sizes (legitimately differ between clang -O0 and g++ -O2)
    'c04_async': ('c04_async.cpp', r'^drive_(start_value|start_throw|start_promise|start_claimed|detach|never_started|join|future_ctor|susp_resolved_later|susp_dropped|nested|void|join_throw|join_void|join_void_throw|alloc_value|alloc_never_started|susp_exception|susp_promise|susp_detached|susp_detached_dropped|detach_throw|susp_void|susp_twice|susp_ready|nested_void|nested_throw|nested_catch|nested_susp|nested_susp_dropped|nested3)$', r'_ptr$|_sz$', {}),
    'c13_generator': ('c13_generator.cpp', r'^drive_(next|range_for|iter_postfix|future|mixed|throw|arg_next|arg_future|early|move|co_await|await_future|await_ready|await_co_await|after_exception|mixed5|throw_mixed)$', r'^g_frame_kind$',
                      {r'^(k|pos)$': (0, 3), r'^stop$': (0, 4), r'^(style|s[0-3])$': (0, 4)}),
    'c14_aggregator': ('c14_aggregator.cpp', r'^drive_(aggr|aggr_arg)$', r'^g_frame_kind$',
                       {r'^n$': (0, 3), r'drive_aggr_arg:^n$': (0, 2), r'^style$': (0, 1), r'^stop$': (-1, 5), r'^kind[0-2]$': (0, 1), r'^k[0-2]$': (0, 2), r'^(pre|steps)$': (0, 4)}),
    'c18_drive': ('c18_drive.cpp', r'^c18_drive(_mp|_discard|_cfa|_conv|_cbthrow|_cbctor|_discard_fail|_mo)?$', r'^g_frame_kind$|^g_st_block$|^g_st_freed$|_size$',
                  {r'^outcome$': (0, 2), r'^(before|counting|take|throws|conv_throws)$': (0, 1)}),
    'c15_drive': ('c15_drive.cpp', r'^c15_drive(_disconnected|_incoro|_void)?$', r'^g_frame_kind$',
                  {r'^nlist$': (1, 3), r'^(second_by_ref|late|by_ref)$': (0, 1)}),
}
# per case: C++ text added to the harness (hooks the driver only declares) and input globals set to the same pseudo-random value on both sides
HOOKS = {'c18_drive': 'extern "C" void c18_probe(int) {}\nextern "C" void cvx_c18_probe(int) {}\n'}
INPUTS = {'c15_drive': {'g_cb_limit': (0, 4)}}

def sh(cmd, **kw):
    r = subprocess.run(cmd, capture_output=True, text=True, **kw)
    return r.returncode, r.stdout + r.stderr

PRE = r'''#include <stdio.h>
#define __CPROVER_assert(c,m) do{ if(!(c)){ fprintf(stderr,"T-ASSERT (translated text / primitive): %s\n", m); abort(); } }while(0)
#define __CPROVER_assume(c) do{ if(!(c)){ fprintf(stderr,"T-ASSUME violated in a primitive\n"); abort(); } }while(0)
#include "cv_prelude.h"
'''

def run_case(name, rounds, keep):
    driver, rx, skip_rx, shape = CASES[name]
    dsrc = open(os.path.join(VERIF, 'drivers', driver)).read()
    wd = tempfile.mkdtemp(prefix='cocls-difftest-%s-' % name)
    try:
        ll = os.path.join(wd, 'd.ll')
        rc, out = sh(['clang++-14'] + CLANG_FLAGS + ['-I', os.path.join(REPO, 'src'), '-I', os.path.join(VERIF, 'drivers'), os.path.join(VERIF, 'drivers', driver), '-o', ll])
        if rc: return 2, 'clang: ' + out[-1500:]
        rc, out = sh([sys.executable, os.path.join(TOOLS, 'ir2c.py'), ll, '--root', rx, '--out', os.path.join(wd, 'u')])
        if rc: return 2, 'ir2c: ' + out[-1500:]
        summ = json.load(open(os.path.join(wd, 'u.json')))
        scen = sorted(f['c'] for f in summ['functions'] if re.search(rx, f['demangled']))
        if not scen: return 2, 'no scenario function matches'
        open(os.path.join(wd, 'pre.h'), 'w').write(PRE)
        open(os.path.join(wd, 'rt.c'), 'w').write('#include "pre.h"\n#include "%s/lib/rt_core.c"\n#include "%s/lib/rt_atomic_seq.c"\n' % (VERIF, VERIF))
        open(os.path.join(wd, 'body.c'), 'w').write('#include "pre.h"\n#include "u_decl.h"\n#include "u_body.c"\n')
        for f in ('rt', 'body'):
            rc, out = sh(['gcc', '-std=gnu11', '-O1', '-w', '-fno-strict-aliasing', '-I', os.path.join(VERIF, 'lib'), '-I', wd, '-c', f + '.c', '-o', f + '.o'], cwd=wd)
            if rc: return 2, 'gcc %s.c: %s' % (f, out[-2500:])
        rc, out = sh(['ld', '-r', 'rt.o', 'body.o', '-o', 't0.o'], cwd=wd)
        if rc: return 2, 'ld -r: ' + out[-1500:]
        rc, out = sh(['nm', '-S', 't0.o'], cwd=wd)
        defined = {}; undefined = []
        for l in out.split('\n'):
            p = l.split()
            if len(p) == 2 and p[0] == 'U': undefined.append(p[1])
            elif len(p) == 4 and p[2] in 'TDBRCVWtdbr' and p[2].isupper(): defined[p[3]] = int(p[1], 16)
            elif len(p) == 3 and p[1].isupper() and p[1] != 'U': defined[p[2]] = 0
        open(os.path.join(wd, 'ren.txt'), 'w').write(''.join('%s T_%s\n' % (s, s) for s in defined))
        rc, out = sh(['objcopy', '--redefine-syms=ren.txt', 't0.o', 't.o'], cwd=wd)
        if rc: return 2, 'objcopy: ' + out[-1500:]
        # shims for what the translated text leaves external: libstdc++ objects used as identities, throw helpers, libc wrappers
        libc = {'_GLOBAL_OFFSET_TABLE_', 'malloc', 'free', 'memcpy', 'memmove', 'memset', 'abort', 'fprintf', 'fwrite', 'stderr', 'memcmp', 'strlen'}
        sh_c = ['#include <stdio.h>\n#include <stdlib.h>\n#include <string.h>\n#include <unistd.h>\n#include <sched.h>\n#include <errno.h>\n#include <sys/syscall.h>\n']
        for s in undefined:
            if s in libc or (s + '(') in HOOKS.get(name, ''): continue
            if s.startswith('G_'): sh_c.append('char %s[512];   /* external libstdc++ object, used as an identity only */' % s)
            elif 'throw' in s: sh_c.append('void %s(void) { fprintf(stderr, "T: libstdc++ throw helper %s reached\\n"); abort(); }' % (s, s))
            elif re.match(r'^_ZNSt\d+\w*(C[12]E|D[012]Ev)', s): sh_c.append('void %s(void) {}   /* ctor / dtor of a libstdc++ exception class: exception objects are opaque in the translated world */' % s)
            elif s in ('cvx_pthread_mutex_lock', 'cvx_pthread_mutex_unlock', 'cvx_pthread_mutex_trylock'): sh_c.append('#include <pthread.h>\nint %s(void *m) { return %s((pthread_mutex_t *)m); }' % (s, s[4:]))
            elif s == 'cvx_strcmp': sh_c.append('int cvx_strcmp(const char *a, const char *b) { return strcmp(a, b); }')
            elif s == 'cvx_memcmp': sh_c.append('int cvx_memcmp(const void *a, const void *b, unsigned long n) { return memcmp(a, b, n); }')
            elif s == 'cvx_sched_yield': sh_c.append('int cvx_sched_yield(void) { return sched_yield(); }')
            elif s == 'cvx___errno_location': sh_c.append('int *cvx___errno_location(void) { return &errno; }')
            elif s == 'cvx_syscall': sh_c.append('long cvx_syscall(long n, long a, long b, long c, long d, long e, long f) { return syscall(n, a, b, c, d, e, f); }')
            elif s == 'nondet_bool': sh_c.append('_Bool nondet_bool(void) { static unsigned s = 12345; s = s * 1103515245u + 12345u; return (s >> 16) & 1; }   /* spurious CAS failures etc.: pseudo-random */')
            elif s == 'cv_llvm_x86_sse2_pause': sh_c.append('void cv_llvm_x86_sse2_pause(void) {}')
            else: return 2, 'translated text needs external %s: no native shim (extend tools/difftest.py)' % s
        open(os.path.join(wd, 'shim.c'), 'w').write('\n'.join(sh_c) + '\n')
        rc, out = sh(['gcc', '-O1', '-w', '-c', 'shim.c', '-o', 'shim.o'], cwd=wd)
        if rc: return 2, 'gcc shim.c: ' + out[-1500:]
        obs = sorted((s[2:], n) for s, n in defined.items() if s.startswith('G_g_') and n > 0 and not re.search(skip_rx, s[2:]))   # ir2c names module globals G_<name>
        h = ['#include "%s"' % os.path.join(VERIF, 'drivers', driver), '#include <cstdio>', '#include <cstring>', '#include <cstdlib>', 'extern "C" {']
        sigs = {}
        for sc in scen:
            mm = re.search(r'^\s*(?:extern "C"\s+)?(int|void)\s+%s\s*\(([^)]*)\)\s*\{' % re.escape(sc), dsrc, re.M)
            if not mm: return 2, 'cannot find the definition of scenario %s in %s' % (sc, driver)
            params = [q.strip() for q in mm.group(2).split(',') if q.strip() and q.strip() != 'void']
            if any(not re.match(r'^int\s+\w+$', q) for q in params): return 2, 'scenario %s: only int parameters are supported (%s)' % (sc, params)
            sigs[sc] = (mm.group(1), [q.split()[-1] for q in params])
        for sc in scen: h.append('%s T_%s(%s);' % (sigs[sc][0], sc, ', '.join(['int'] * len(sigs[sc][1])) or 'void'))
        for s_, n in obs: h.append('extern char T_G_%s[];' % s_)
        h.append('}')
        h.append('static void reset() { %s }' % ' '.join('memset((void*)&%s, 0, %d); memset(T_G_%s, 0, %d);' % (s_, n, s_, n) for s_, n in obs))
        h.append('static int same(const char *sc, const int *x, int nx) { int bad = 0;')
        for s_, n in obs:
            h.append('  if (memcmp((const void*)&%s, T_G_%s, %d)) { printf("DIFF scenario=%%s global=%s args=", sc); for (int i = 0; i < nx; i++) printf("%%d ", x[i]); printf("\\n"); bad = 1; }' % (s_, s_, n, s_))
        h.append('  return !bad; }')
        if name in HOOKS: h.insert(1, HOOKS[name])
        h.append('static unsigned seed = 1; static unsigned rnd() { seed = seed * 1664525u + 1013904223u; return seed >> 4; }')
        h.append('static int val(long r, int i) { static const int edge[] = {0, 1, -1, 2, 7, 2147483647, -2147483647 - 1, 2147483646, 42}; if (r < 9) return edge[(r + i) % 9]; unsigned q = rnd(); return (q & 3) == 0 ? edge[(q >> 2) % 9] : (int)(rnd() * 2654435761u); }')
        h.append('static int shp(int lo, int hi) { return lo + (int)(rnd() % (unsigned)(hi - lo + 1)); }')
        h.append('int main(int argc, char **argv) { long rounds = atol(argv[1]); long bad = 0, runs = 0;')
        h.append('  for (long r = 0; r < rounds; r++) {')
        for sc in scen:
            rt, ps = sigs[sc]
            gens = []
            for i, pn in enumerate(ps):
                rg = [v for k_, v in shape.items() if ':' in k_ and k_.split(':')[0] == sc and re.search(k_.split(':', 1)[1], pn)] or [v for k_, v in shape.items() if ':' not in k_ and re.search(k_, pn)]
                gens.append('shp(%d, %d)' % rg[0] if rg else 'val(r, %d)' % i)
            nx = max(len(ps), 1)
            args = ', '.join('x[%d]' % i for i in range(len(ps)))
            h.append('    { int x[%d] = {%s}; reset();' % (nx, ', '.join(gens) or '0'))
            for gn, (lo, hi) in INPUTS.get(name, {}).items():
                h.append('      { int iv = shp(%d, %d); memcpy((void*)&%s, &iv, sizeof iv); memcpy(T_G_%s, &iv, sizeof iv); }' % (lo, hi, gn, gn))
            if rt == 'int':
                h.append('      int a = %s(%s); int b = T_%s(%s); runs++; if (a != b) { printf("DIFF scenario=%s return real=%%d translated=%%d\\n", a, b); bad++; }' % (sc, args, sc, args, sc))
            else:
                h.append('      %s(%s); T_%s(%s); runs++;' % (sc, args, sc, args))
            h.append('      if (!same("%s", x, %d)) bad++; }' % (sc, len(ps)))
        h.append('  }')
        h.append('  printf("difftest %s: scenarios=%d runs=%%ld differences=%%ld observation_globals=%d\\n", runs, bad); return bad ? 1 : 0; }' % (name, len(scen), len(obs)))
        open(os.path.join(wd, 'h.cpp'), 'w').write('\n'.join(h) + '\n')
        real_cc = 'g++ -O2'
        rc, out = sh(['g++', '-std=c++20', '-O2', '-DNDEBUG', '-w', '-pthread', '-I', os.path.join(REPO, 'src'), '-I', os.path.join(VERIF, 'drivers'), 'h.cpp', 't.o', 'shim.o', '-o', 'dt'], cwd=wd)
        if rc and 'is already defined' in out:
            # g++ 12 gives the actor / destroy clones of an extern "C" coroutine one assembler name: such drivers are compiled by clang++ -O2
            real_cc = 'clang++-14 -O2 (g++ cannot compile extern "C" coroutines)'
            rc, out = sh(['clang++-14', '-std=c++20', '-O2', '-DNDEBUG', '-w', '-pthread', '-I', os.path.join(REPO, 'src'), '-I', os.path.join(VERIF, 'drivers'), 'h.cpp', 't.o', 'shim.o', '-o', 'dt'], cwd=wd)
        if rc: return 2, 'harness compiler: ' + out[-2500:]
        try:
            rc, out = sh(['./dt', str(rounds)], cwd=wd, timeout=600)
        except subprocess.TimeoutExpired:
            return 2, 'timeout'
        info = dict(translated_functions=len(summ['functions']), scenarios=len(scen), observation_globals=[s for s, _ in obs], rounds=rounds, real_side_compiler=real_cc)
        tail = out.strip().split('\n')[-12:]
        if rc == 0: return 0, (tail[-1], info)
        if rc == 1 and any(l.startswith('DIFF') for l in tail): return 1, ('\n'.join(tail), info)
        return 1, ('translated or real scenario crashed / aborted (rc=%d): %s' % (rc, '\n'.join(tail)), info)
    finally:
        if keep: print('scratch kept:', wd)
        else: shutil.rmtree(wd, ignore_errors=True)

def main():
    args = [a for a in sys.argv[1:] if not a.startswith('--')]
    rounds = int(sys.argv[sys.argv.index('--rounds') + 1]) if '--rounds' in sys.argv else 2000
    if '--rounds' in sys.argv: args = [a for a in args if a != str(rounds)]
    keep = '--keep' in sys.argv
    worst = 0; report = {}
    for c in (args or sorted(CASES)):
        t0 = time.time()
        rc, msg = run_case(c, rounds, keep)
        report[c] = dict(rc=rc, result=msg if isinstance(msg, str) else msg[0], info=None if isinstance(msg, str) else msg[1], wall_s=round(time.time() - t0, 1))
        print(('OK        ' if rc == 0 else 'DIFFERENCE' if rc == 1 else 'UNDECIDED ') + ' ' + c + ': ' + (msg if isinstance(msg, str) else msg[0]))
        worst = max(worst, rc)
    os.makedirs(os.path.join(VERIF, 'evidence'), exist_ok=True)
    json.dump(dict(tool='tools/difftest.py', what='differential execution: ir2c translation (gcc) vs real headers (g++ -O2) on the driver scenarios', repo=REPO,
                   cases=report), open(os.path.join(VERIF, 'evidence', 'ir2c_difftest.json'), 'w'), indent=1)
    sys.exit(worst)
main()
