#!/usr/bin/env python3
"""seedcheck.py <seeded dir> <Cxx>...  - run the quick checks of the given properties against /repo + the seeded patch.
The patch is applied to a scratch COPY of /repo/src (COCLS_REPO), so concurrent work on /repo is not disturbed; pass --in-place to
follow the literal procedure (git -C /repo apply ...; run; git -C /repo checkout -- .).  Results are merged into <dir>/meta.json."""
import sys, os, json, subprocess, shutil, tempfile, time
V = os.path.dirname(os.path.dirname(os.path.abspath(__file__)))
def main():
    args = [a for a in sys.argv[1:] if not a.startswith('--')]
    inplace = '--in-place' in sys.argv
    d = os.path.abspath(args[0]); props = args[1:]
    patch = os.path.join(d, 'patch.diff')
    meta_p = os.path.join(d, 'meta.json'); meta = json.load(open(meta_p)) if os.path.exists(meta_p) else {}
    tmp = None
    try:
        if inplace:
            subprocess.run(['git', '-C', '/repo', 'apply', patch], check=True); env = dict(os.environ)
        else:
            tmp = tempfile.mkdtemp(prefix='seedcheck-')
            shutil.copytree('/repo/src', os.path.join(tmp, 'src'))
            subprocess.run(['git', 'init', '-q', tmp], check=True)
            subprocess.run(['git', '-C', tmp, 'apply', patch], check=True)
            env = dict(os.environ, COCLS_REPO=tmp)
        res = {}
        for p in props:
            t0 = time.time()
            r = subprocess.run([os.path.join(V, 'check'), p, 'quick', '--no-evidence', '--jobs', os.environ.get('VERIF_JOBS', '10')], cwd=V, env=env, capture_output=True, text=True)
            viol = [l for l in r.stdout.split('\n') if l.startswith('VIOLATION')]
            und = [l for l in r.stdout.split('\n') if l.startswith('UNDECIDED')]
            res[p] = dict(exit=r.returncode, violations=len(viol), undecided=len(und), wall_s=round(time.time() - t0, 1),
                          first=[l[:420] for l in viol[:4]], undecided_first=[l[:300] for l in und[:2]])
            print(p, 'exit', r.returncode, 'violations', len(viol), 'undecided', len(und)); [print('   ', l[:260]) for l in viol[:3]]
        meta['checks'] = dict(meta.get('checks', {}), **res)
        meta['caught_by'] = sorted(p for p, v in meta['checks'].items() if v['exit'] == 1)
        json.dump(meta, open(meta_p, 'w'), indent=1)
    finally:
        if inplace: subprocess.run(['git', '-C', '/repo', 'checkout', '--', '.'])
        if tmp: shutil.rmtree(tmp, ignore_errors=True)
main()
