#!/usr/bin/env python3
"""seedsweep.py [ids...] - re-run the quick checks recorded in every /verif/seeded/<id>/meta.json ('checks' keys) against /repo + patch (scratch copy)."""
import sys, os, json, subprocess, glob
V = os.path.dirname(os.path.dirname(os.path.abspath(__file__)))
ids = sys.argv[1:] or sorted(os.path.basename(os.path.dirname(p)) for p in glob.glob(os.path.join(V, 'seeded', '*', 'meta.json')))
for i in ids:
    mp = os.path.join(V, 'seeded', i, 'meta.json'); m = json.load(open(mp))
    props = sorted(m.get('checks', {}).keys()) or [m['property']]
    m['checks'] = {}; json.dump(m, open(mp, 'w'), indent=1)
    r = subprocess.run([sys.executable, os.path.join(V, 'tools', 'seedcheck.py'), os.path.join(V, 'seeded', i)] + props, capture_output=True, text=True)
    print('###', i, ' '.join(l for l in r.stdout.split('\n') if ' exit ' in l), (r.stderr.strip()[-200:] if r.returncode else ''), flush=True)
