#!/usr/bin/env python3
"""seedtable.py - markdown table of /verif/seeded/*/meta.json (for DESIGN.md section 10)"""
import json, glob, os, re
V = os.path.dirname(os.path.dirname(os.path.abspath(__file__)))
rows = []
for mp in sorted(glob.glob(os.path.join(V, 'seeded', '*', 'meta.json'))):
    m = json.load(open(mp)); d = os.path.dirname(mp)
    files = ', '.join(sorted(set(re.findall(r'^\+\+\+ b/(\S+)', open(os.path.join(d, 'patch.diff')).read(), re.M))))
    ch = m.get('checks', {})
    res = []
    for p, v in sorted(ch.items()):
        first = ''
        if v.get('first'):
            mm = re.search(r'obligation="([^"\[]+)', v['first'][0]); first = (' (' + mm.group(1).strip().split('/', 1)[1][:70] + ')') if mm else ''
        res.append('%s: %s%s' % (p, {0: 'pass', 1: 'VIOLATION x%d' % v.get('violations', 0), 2: 'undecided'}.get(v['exit'], v['exit']), first))
    rows.append('| %s | %s | %s | %s | %s |' % (m['id'], m['property'], files.replace('src/cocls/', ''), (m.get('summary') or m.get('what_it_needs_to_manifest') or '').replace('|', '/')[:300], '; '.join(res)))
print('| id | written for | file(s) | change / what it needs to manifest | quick checks of /verif on /repo + patch |')
print('|---|---|---|---|---|')
print('\n'.join(rows))
