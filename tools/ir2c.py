#!/usr/bin/env python3
"""ir2c - mechanical LLVM-14 textual IR -> C translator used by /verif (see DESIGN.md section 2).
One IR instruction becomes one C statement. Anything not understood raises Unsupported -> exit code 2.
Usage: ir2c.py mod.ll --root REGEX.. [--boundary REGEX..] --out PREFIX   (writes PREFIX_decl.h PREFIX_body.c PREFIX.json)
"""
import re, sys, argparse, collections, subprocess, json, os

class Unsupported(Exception):
    pass


# ---------------------------------------------------------------- tokenizer
TOK = re.compile(r'''
   \s+
 | ;[^\n]*
 | (?P<str>c?"(?:[^"\\]|\\.)*")
 | (?P<lid>%(?:"(?:[^"\\]|\\.)*"|[-\w.$]+))
 | (?P<gid>@(?:"(?:[^"\\]|\\.)*"|[-\w.$]+))
 | (?P<comdat>\$(?:"(?:[^"\\]|\\.)*"|[-\w.$]+))
 | (?P<md>![-\w.]*)
 | (?P<attr>\#\d+)
 | (?P<num>-?\d+\.\d+(?:e[+-]?\d+)?|-?\d+|0x[0-9A-Fa-f]+)
 | (?P<word>[A-Za-z_][\w.]*)
 | (?P<dots>\.\.\.)
 | (?P<p>[()\[\]{}<>,=*:|])
''', re.X)

def tokenize(s):
    out = []
    i = 0
    n = len(s)
    while i < n:
        m = TOK.match(s, i)
        if not m:
            raise SyntaxError("tok: %r" % s[i:i+40])
        i = m.end()
        k = m.lastgroup
        if k:
            out.append((k, m.group(k)))
    return out

def unq(name):
    # %"a b" -> a b ; %x -> x ; @"f" -> f
    name = name[1:]
    if name.startswith('"'):
        name = name[1:-1]
    return name

# ---------------------------------------------------------------- types
class T:  # type node
    def __init__(s, k, **kw):
        s.k = k
        s.__dict__.update(kw)
    def __repr__(s):
        return tstr(s)

def tstr(t):
    k = t.k
    if k == 'int': return 'i%d' % t.bits
    if k == 'void': return 'void'
    if k == 'fp': return t.name
    if k == 'ptr': return tstr(t.to) + '*'
    if k == 'arr': return '[%d x %s]' % (t.n, tstr(t.el))
    if k == 'named': return '%' + t.name
    if k == 'struct': return ('<{%s}>' if t.packed else '{%s}') % ', '.join(map(tstr, t.els))
    if k == 'fn': return '%s (%s)' % (tstr(t.ret), ', '.join(map(tstr, t.args)) + (', ...' if t.va else ''))
    if k == 'label': return 'label'
    if k == 'metadata': return 'metadata'
    if k == 'opaque': return 'opaque'
    return '?' + k

class P:  # token-stream parser
    def __init__(s, toks):
        s.t = toks
        s.i = 0
    def peek(s, o=0):
        return s.t[s.i + o] if s.i + o < len(s.t) else (None, None)
    def next(s):
        x = s.t[s.i]
        s.i += 1
        return x
    def accept(s, v):
        if s.peek()[1] == v:
            s.i += 1
            return True
        return False
    def expect(s, v):
        x = s.next()
        if x[1] != v:
            raise SyntaxError("expected %r got %r near %r" % (v, x, s.t[max(0, s.i-6):s.i+4]))
    def eof(s):
        return s.i >= len(s.t)

    def type(s):
        k, v = s.next()
        if k == 'word':
            if re.fullmatch(r'i\d+', v): t = T('int', bits=int(v[1:]))
            elif v == 'void': t = T('void')
            elif v in ('float', 'double', 'half', 'x86_fp80', 'fp128'): t = T('fp', name=v)
            elif v == 'label': t = T('label')
            elif v == 'metadata': t = T('metadata')
            elif v == 'opaque': t = T('opaque')
            elif v == 'token': t = T('opaque')
            elif v == 'ptr': t = T('ptr', to=T('int', bits=8))
            else: raise SyntaxError("type word %r" % v)
        elif k == 'lid':
            t = T('named', name=unq(v))
        elif v == '[':
            n = int(s.next()[1]); s.expect('x'); el = s.type(); s.expect(']')
            t = T('arr', n=n, el=el)
        elif v == '{':
            els = []
            if not s.accept('}'):
                while True:
                    els.append(s.type())
                    if s.accept('}'): break
                    s.expect(',')
            t = T('struct', els=els, packed=False)
        elif v == '<':
            if s.peek()[1] == '{':
                s.next(); els = []
                if not s.accept('}'):
                    while True:
                        els.append(s.type())
                        if s.accept('}'): break
                        s.expect(',')
                s.expect('>')
                t = T('struct', els=els, packed=True)
            else:  # vector
                n = int(s.next()[1]); s.expect('x'); el = s.type(); s.expect('>')
                t = T('arr', n=n, el=el)
        else:
            raise SyntaxError("type tok %r %r" % (k, v))
        while True:
            if s.accept('*'):
                t = T('ptr', to=t)
            elif s.peek()[1] == '(' and t.k != 'label':
                # function type
                s.next(); args = []; va = False
                if not s.accept(')'):
                    while True:
                        if s.peek()[0] == 'dots':
                            s.next(); va = True
                        else:
                            args.append(s.type())
                        if s.accept(')'): break
                        s.expect(',')
                t = T('fn', ret=t, args=args, va=va)
            elif s.peek() == ('word', 'addrspace'):
                s.next(); s.expect('('); s.next(); s.expect(')')
            else:
                break
        return t

PARAM_ATTRS = set('noundef nonnull noalias nocapture readonly readnone writeonly returned signext zeroext inreg nest immarg swiftself swifterror nofree'.split())

def skip_param_attrs(p):
    """skip parameter attributes; return dict of interesting ones"""
    info = {}
    while True:
        k, v = p.peek()
        if k == 'word' and v in PARAM_ATTRS:
            p.next()
        elif k == 'word' and v in ('align', 'dereferenceable', 'dereferenceable_or_null'):
            p.next()
            if p.accept('('):
                p.next(); p.expect(')')
            else:
                p.next()
        elif k == 'word' and v in ('sret', 'byval', 'byref', 'inalloca', 'preallocated', 'elementtype'):
            p.next()
            if p.accept('('):
                info[v] = p.type(); p.expect(')')
            else:
                info[v] = True
        else:
            break
    return info

# ---------------------------------------------------------------- values
class V:
    def __init__(s, k, **kw):
        s.k = k
        s.__dict__.update(kw)

def parse_value(p, ty):
    """parse a value of (already parsed) type ty -> V"""
    k, v = p.peek()
    if k == 'lid':
        p.next(); return V('local', name=unq(v), ty=ty)
    if k == 'gid':
        p.next(); return V('global', name=unq(v), ty=ty)
    if k == 'num':
        p.next(); return V('int', val=v, ty=ty)
    if k == 'word':
        if v in ('true', 'false'):
            p.next(); return V('int', val='1' if v == 'true' else '0', ty=ty)
        if v == 'null':
            p.next(); return V('null', ty=ty)
        if v in ('undef', 'poison'):
            p.next(); return V('undef', ty=ty)
        if v == 'zeroinitializer':
            p.next(); return V('zero', ty=ty)
        if v in ('bitcast', 'inttoptr', 'ptrtoint', 'trunc', 'zext', 'sext', 'addrspacecast'):
            p.next(); p.expect('(')
            t0 = p.type(); x = parse_value(p, t0); p.expect('to'); t1 = p.type(); p.expect(')')
            return V('cast', op=v, x=x, ty=t1)
        if v == 'getelementptr':
            p.next(); p.accept('inbounds'); p.expect('(')
            bt = p.type(); p.expect(',')
            pt = p.type(); base = parse_value(p, pt); idx = []
            while p.accept(','):
                p.accept('inrange')
                it = p.type(); idx.append(parse_value(p, it))
            p.expect(')')
            return V('gep', bt=bt, base=base, idx=idx, ty=ty)
        if v in ('add', 'sub', 'mul', 'and', 'or', 'xor', 'shl', 'lshr', 'ashr'):
            p.next()
            while p.peek()[1] in ('nuw', 'nsw', 'exact'): p.next()
            p.expect('('); t0 = p.type(); a = parse_value(p, t0); p.expect(','); t1 = p.type(); b = parse_value(p, t1); p.expect(')')
            return V('binop', op=v, a=a, b=b, ty=ty)
        if v == 'icmp':
            p.next(); pred = p.next()[1]; p.expect('('); t0 = p.type(); a = parse_value(p, t0); p.expect(','); t1 = p.type(); b = parse_value(p, t1); p.expect(')')
            return V('icmpc', pred=pred, a=a, b=b, ty=ty)
    if k == 'str':
        p.next(); return V('cstr', val=v, ty=ty)
    if v == '{' or (v == '<' and p.peek(1)[1] == '{'):
        packed = v == '<'
        if packed: p.next()
        p.next(); els = []
        if not p.accept('}'):
            while True:
                t0 = p.type(); els.append(parse_value(p, t0))
                if p.accept('}'): break
                p.expect(',')
        if packed: p.expect('>')
        return V('cstruct', els=els, ty=ty)
    if v == '[':
        p.next(); els = []
        if not p.accept(']'):
            while True:
                t0 = p.type(); els.append(parse_value(p, t0))
                if p.accept(']'): break
                p.expect(',')
        return V('carray', els=els, ty=ty)
    raise SyntaxError("value %r %r" % (k, v))

def typed_value(p):
    t = p.type()
    skip_param_attrs(p)
    return parse_value(p, t)

# ---------------------------------------------------------------- module
class Func:
    pass

class Module:
    def __init__(s):
        s.types = collections.OrderedDict()   # name -> T
        s.globals = collections.OrderedDict() # name -> dict
        s.funcs = collections.OrderedDict()   # name -> Func
        s.aliases = {}

def split_top(text):
    """yield ('type'|'global'|'declare'|'define', chunk)"""
    lines = text.split('\n')
    i = 0
    while i < len(lines):
        ln = lines[i]
        if ln.startswith('define '):
            j = i
            while lines[j] != '}': j += 1
            yield 'define', lines[i:j+1]
            i = j + 1; continue
        if ln.startswith('declare '):
            yield 'declare', [ln]
        elif re.match(r'^%("[^"]*"|[-\w.$]+) = type ', ln):
            yield 'type', [ln]
        elif re.match(r'^@("[^"]*"|[-\w.$]+) = ', ln):
            yield 'global', [ln]
        i += 1

LINKAGE = set('private internal available_externally linkonce weak common appending extern_weak linkonce_odr weak_odr external dso_local dso_preemptable default hidden protected dllimport dllexport unnamed_addr local_unnamed_addr thread_local externally_initialized'.split())
CCONV = set('ccc fastcc coldcc'.split())

def parse_fn_header(p):
    """after 'define'/'declare' token. returns (name, ret, params[(T,name,info)], va)"""
    while p.peek()[0] == 'word' and (p.peek()[1] in LINKAGE or p.peek()[1] in CCONV):
        w = p.next()[1]
        if w == 'thread_local' and p.accept('('):
            p.next(); p.expect(')')
    skip_param_attrs(p)
    ret = p.type()
    name = unq(p.next()[1])
    p.expect('(')
    params = []; va = False
    if not p.accept(')'):
        while True:
            if p.peek()[0] == 'dots':
                p.next(); va = True
            else:
                t = p.type(); info = skip_param_attrs(p)
                pn = None
                if p.peek()[0] == 'lid':
                    pn = unq(p.next()[1])
                params.append((t, pn, info))
            if p.accept(')'): break
            p.expect(',')
    return name, ret, params, va

def parse_module(text):
    m = Module()
    for kind, chunk in split_top(text):
        if kind == 'type':
            p = P(tokenize(chunk[0]))
            name = unq(p.next()[1]); p.expect('='); p.expect('type')
            m.types[name] = p.type()
        elif kind == 'global':
            ln = chunk[0]
            p = P(tokenize(ln))
            name = unq(p.next()[1]); p.expect('=')
            tl = False
            while p.peek()[0] == 'word' and p.peek()[1] in LINKAGE:
                w = p.next()[1]
                if w == 'thread_local':
                    tl = True
                    if p.accept('('):
                        p.next(); p.expect(')')
            if p.peek()[1] == 'alias' or p.peek()[1] == 'ifunc':
                tgt = re.findall(r'@("[^"]*"|[-\w.$]+)\s*$', ln)
                if tgt: m.aliases[name] = tgt[0].strip('"')
                continue
            ext = 'external' in ln.split('=')[1].split()[:4]
            kindw = p.next()[1]  # global | constant
            t = p.type()
            init = None
            if not p.eof() and p.peek()[1] != ',':
                try:
                    init = parse_value(p, t)
                except SyntaxError:
                    init = None
            m.globals[name] = dict(ty=t, init=init, const=(kindw == 'constant'), tl=tl, external=ext)
        elif kind == 'declare':
            p = P(tokenize(chunk[0])); p.expect('declare')
            f = Func(); f.name, f.ret, f.params, f.va = parse_fn_header(p); f.blocks = None
            m.funcs[f.name] = f
        elif kind == 'define':
            p = P(tokenize(chunk[0])); p.expect('define')
            f = Func(); f.name, f.ret, f.params, f.va = parse_fn_header(p)
            md = re.search(r'!dbg !(\d+)', chunk[0]); f.dbg = md.group(1) if md else None
            f.blocks = collections.OrderedDict()
            cur = None
            for ln in chunk[1:-1]:
                s = ln.strip()
                if not s or s.startswith(';'): continue
                mm = re.match(r'^("[^"]*"|[-\w.$]+):', ln)
                if mm and not ln.startswith(' '):
                    cur = mm.group(1).strip('"'); f.blocks[cur] = []; continue
                if cur is None:
                    cur = 'entry'; f.blocks[cur] = []
                if f.blocks[cur] and (s.startswith('to label') or s.startswith('cleanup') or s.startswith('catch ') or s.startswith('filter ')
                                      or getattr(f, '_insw', False)):
                    f.blocks[cur][-1] += ' ' + s
                    if s.startswith(']'): f._insw = False
                    continue
                if s.startswith('switch ') and s.endswith('['):
                    f._insw = True
                f.blocks[cur].append(s)
            m.funcs[f.name] = f
    return m

# ---------------------------------------------------------------- C emission
EXTERN_C = set()     # external plain-C functions of the module (libc, pthread, ...): emitted as cvx_<name>, supplied by the unit

def san(name):
    s = re.sub(r'[^A-Za-z0-9_]', '_', name)
    if re.match(r'\d', s): s = '_' + s
    if name in EXTERN_C: s = 'cvx_' + s
    return s

TSAN = {}      # LLVM type name -> C identifier; filled per module by set_type_names (injective: '.' and '_' both sanitise to '_')
def tsan(name):
    return TSAN.get(name) or san(name)
def set_type_names(names):
    TSAN.clear(); used = {}
    for n in sorted(names):
        c = san(n)
        if c in used and used[c] != n:
            k = 1
            while '%s__c%d' % (c, k) in used: k += 1
            c = '%s__c%d' % (c, k)
        used[c] = n; TSAN[n] = c

class Emitter:
    def __init__(s, m, boundary):
        s.m = m
        s.boundary = boundary
        s.lit_structs = collections.OrderedDict()  # key -> name
        s.need_types = collections.OrderedDict()
        s.out_funcs = []
        s.protos = collections.OrderedDict()
        s.used_globals = collections.OrderedDict()
        s.fnptr_typedefs = collections.OrderedDict()
        s.namer = None
        s.di = None
        s.emitted = set()
        s.boundary_set = set()
        s.loop_macros = []
        s.loop_locals = collections.OrderedDict()
        s.fsrc = {}
        s.floops = {}
        s.atomic_sites = []
        s.addr_taken = collections.OrderedDict()
        s.icalls = collections.OrderedDict()
        s.intr = collections.OrderedDict()
        s.typeids = {}
        s.icall_hooks = []
        s.perm = {}
        s.perm_sites = []

    # ---- types
    def ctype(s, t, decl=''):
        """return C declaration string of `decl` with type t"""
        k = t.k
        if k == 'int':
            b = t.bits
            base = {1: 'cv_i1', 8: 'cv_i8', 16: 'cv_i16', 32: 'cv_i32', 64: 'cv_i64'}.get(b)
            if base is None:
                # odd widths (clang's coroutine suspend index is an i2/i3/...): the storage type of LLVM's data layout = next power of two
                # bytes (found by tools/difftest.py: i3 as an 8-byte field moved every later frame member)
                base = 'cv_i8' if b <= 8 else 'cv_i16' if b <= 16 else 'cv_i32' if b <= 32 else 'cv_i64' if b <= 64 else 'cv_i128'
            return (base + ' ' + decl).strip()
        if k == 'void': return ('void ' + decl).strip()
        if k == 'fp': return ({'float': 'float', 'double': 'double'}.get(t.name, 'long double') + ' ' + decl).strip()
        if k == 'named':
            s.need_types[t.name] = True
            return ('struct S_%s %s' % (tsan(t.name), decl)).strip()
        if k == 'struct':
            key = tstr(t)
            if key not in s.lit_structs:
                s.lit_structs[key] = ('L%d' % len(s.lit_structs), t)
            return ('struct %s %s' % (s.lit_structs[key][0], decl)).strip()
        if k == 'ptr':
            to = t.to
            if to.k == 'fn':
                return s.ctype(to.ret, '(*%s)(%s)' % (decl, s.cparams(to)))
            if to.k == 'arr':
                return s.ctype(to, '(*%s)' % decl)
            if to.k == 'void' or to.k == 'opaque':
                return ('void *' + decl).strip()
            return s.ctype(to, '*' + decl)
        if k == 'arr':
            return s.ctype(t.el, '%s[%d]' % (decl, max(t.n, 1)))
        if k == 'fn':
            return s.ctype(t.ret, '%s(%s)' % (decl, s.cparams(t)))
        raise Unsupported('ctype ' + k)

    def cparams(s, ft):
        a = [s.ctype(x) for x in ft.args]
        if ft.va:
            if not a: return ''
            a.append('...')
        return ', '.join(a) if a else 'void'

    def resolve(s, t):
        while t.k == 'named':
            t = s.m.types[t.name]
        return t

    def fld(s, t, n):
        """C member name of field n of (unresolved) struct type t"""
        if t.k == 'named' and s.namer is not None:
            return s.namer.fname(t.name, n)
        return 'f%d' % n

    # ---- values
    def cval(s, v, fn=None):
        k = v.k
        if k == 'local': return fn.lname(v.name)
        if k == 'global':
            if v.name in s.m.aliases:
                v = V('global', name=s.m.aliases[v.name], ty=v.ty)
            if v.name in s.m.funcs:
                s.want_func(v.name)
                s.addr_taken[v.name] = True
                return san(v.name)
            s.used_globals[v.name] = True
            return '(&G_%s)' % san(v.name)
        if k == 'int':
            val = v.val
            if v.ty.k == 'int':
                if v.ty.bits == 1: return val
                iv = int(val, 0)
                if iv < 0: iv += 1 << v.ty.bits
                return '((%s)%dU%s)' % (s.ctype(v.ty), iv, 'L' if v.ty.bits > 32 else '')
            return val
        if k == 'null': return '((%s)0)' % s.ctype(v.ty)
        if k == 'undef':
            return 'CV_UNDEF(%s)' % s.ctype(v.ty)
        if k == 'zero': return 'CV_ZERO(%s)' % s.ctype(v.ty)
        if k == 'cast':
            return '((%s)%s)' % (s.ctype(v.ty), s.cval(v.x, fn))
        if k == 'gep':
            return s.cgep(v.bt, v.base, v.idx, fn)
        if k == 'binop':
            op = {'add': '+', 'sub': '-', 'mul': '*', 'and': '&', 'or': '|', 'xor': '^', 'shl': '<<', 'lshr': '>>'}[v.op]
            return '(%s %s %s)' % (s.cval(v.a, fn), op, s.cval(v.b, fn))
        if k == 'cstr': return '/*cstr*/0'
        raise Unsupported('cval ' + k)

    def cgep(s, bt, base, idx, fn):
        e = s.cval(base, fn)
        t = bt
        first = idx[0]
        fi = s.cval(first, fn)
        if first.k == 'int' and int(first.val) == 0:
            acc = '(*%s)' % e
        else:
            acc = '%s[%s]' % (e, s.sidx(first, fn))
        for ix in idx[1:]:
            rt = s.resolve(t)
            if rt.k == 'struct':
                n = int(ix.val)
                acc = '%s.%s' % (acc, s.fld(t, n))
                t = rt.els[n]
            elif rt.k == 'arr':
                acc = '%s[%s]' % (acc, s.sidx(ix, fn))
                t = rt.el
            else:
                raise Unsupported('gep into ' + rt.k)
        return '(&%s)' % acc

    def sidx(s, v, fn):
        # GEP indices are signed
        if v.k == 'int': return str(int(v.val))
        return '(cv_s64)%s' % s.cval(v, fn) if v.ty.bits == 64 else '(cv_s32)%s' % s.cval(v, fn)

    def want_func(s, name):
        if name not in s.protos:
            s.protos[name] = True
            s.pending.append(name)

    # ---- functions
    def run(s, roots):
        s.pending = []
        s.roots = roots
        for r in roots: s.want_func(r)
        s.drain()

    def drain(s):
        roots = s.roots
        while s.pending:
            n = s.pending.pop()
            f = s.m.funcs.get(n)
            if f is None: continue
            if f.blocks is None or (n in s.boundary_set and (n not in roots or n == '__clang_call_terminate')):
                continue
            s.emitted.add(n)
            s.out_funcs.append(FnEmit(s, f).emit())

    def typeid(s, gname):
        if gname not in s.typeids:
            s.typeids[gname] = len(s.typeids) + 1
            if gname is not None: s.used_globals[gname] = True
        return s.typeids[gname]

    def exc_match_fn(s):
        """cv_exc_match(thrown typeinfo, catch typeinfo): exact, catch-all, or public base (from the typeinfo initialisers)"""
        base = collections.defaultdict(set)
        def refs(v, acc):
            if v is None: return
            if v.k == 'global' and v.name.startswith('_ZTI'): acc.add(v.name)
            elif v.k == 'cast': refs(v.x, acc)
            elif v.k in ('cstruct', 'carray'):
                for e in v.els: refs(e, acc)
            elif v.k == 'gep': refs(v.base, acc)
        for g, gi in s.m.globals.items():
            if g.startswith('_ZTI') and gi.get('init') is not None:
                acc = set(); refs(gi['init'], acc); acc.discard(g)
                base[g] = acc
        lines = ['cv_i1 cv_exc_match(void *thrown, void *caught)', '{', '  if (caught == 0 || thrown == caught) return 1;']
        for g in list(s.used_globals):
            if not g.startswith('_ZTI'): continue
            anc = set(); st = [g]
            while st:
                x = st.pop()
                for b in base.get(x, ()):
                    if b not in anc: anc.add(b); st.append(b)
            for a in sorted(anc):
                if a in s.used_globals:
                    lines.append('  if (thrown == (void *)&G_%s && caught == (void *)&G_%s) return 1;' % (san(g), san(a)))
        lines += ['  return 0;', '}']
        return '\n'.join(lines)

    def dispatchers(s):
        """explicit if-chains for indirect calls over the address-taken functions of the unit"""
        em = s; m = s.m
        disp = []
        for key, (nm, rt, ats) in em.icalls.items():
            ps = ''.join(', ' + em.ctype(t, 'a%d' % i) for i, t in enumerate(ats))
            lines = ['%s' % em.ctype(rt, '%s(void *p%s)' % (nm, ps)), '{']
            for fn in list(em.addr_taken):
                f = m.funcs.get(fn)
                if f is None: continue
                if f.va: continue
                # same arity; the only exception is a parameterless function called with arguments (libstdc++'s noop coroutine frame
                # stores a void() function where void(void*) is called)
                if len(f.params) != len(ats) and not (len(f.params) == 0 and len(ats) == 1): continue
                if (f.ret.k == 'void') != (rt.k == 'void'): continue
                if rt.k != 'void' and (f.ret.k == 'ptr') != (rt.k == 'ptr'): continue
                if rt.k in ('struct', 'named') and tstr(f.ret) != tstr(rt): continue
                ok = all((pt.k == 'ptr') == (at.k == 'ptr') and (pt.k == 'ptr' or tstr(pt) == tstr(at)) for (pt, pn, info), at in zip(f.params, ats))
                if not ok: continue
                call = '%s(%s)' % (san(fn), ', '.join('(%s)a%d' % (em.ctype(pt), i) for i, (pt, pn, info) in enumerate(f.params)))
                if rt.k == 'void': lines.append('  if (p == (void *)%s) { %s; return; }' % (san(fn), call))
                else: lines.append('  if (p == (void *)%s) return (%s)%s;' % (san(fn), em.ctype(rt), call))
            def kd(t): return 'p' if t.k == 'ptr' else ('v' if t.k == 'void' else (tstr(t) if t.k == 'int' else 's'))
            hook = 'CV_ICALL_EXTRA_%s_%s' % (kd(rt), ''.join(kd(t) for t in ats) or 'v')
            em.icall_hooks.append(hook)
            lines.append('  %s(p%s)  /* hook: a spec may add stub callees (default: nothing) */' % (hook, ''.join(', a%d' % i for i in range(len(ats)))))
            lines.append('  __CPROVER_assert(0, "indirect call: callee not among address-taken functions");')
            lines.append('  __CPROVER_assume(0);')
            lines.append('}')
            disp.append('\n'.join(lines))
        return disp

    def proto(s, f, names=False):
        ps = []
        for i, (t, pn, info) in enumerate(f.params):
            ps.append(s.ctype(t, san(pn) if (names and pn) else ('a%d' % i if names else '')))
        if f.va: ps.append('...')
        return s.ctype(f.ret, '%s(%s)' % (san(f.name), ', '.join(ps) if ps else 'void'))

ORD = {'unordered': 0, 'monotonic': 0, 'acquire': 2, 'release': 3, 'acq_rel': 4, 'seq_cst': 5}

CKW = set('''__aligned __packed __asm __asm__ __inline __inline__ __volatile __volatile__ __const __const__ __signed __signed__ __restrict __restrict__ __attribute__ __extension__ __typeof__ __typeof __alignof__ __alignof __real__ __imag__ __thread __func__ __FUNCTION__ asm typeof inline bool _Bool __int128 __float128 __label__ __builtin_va_list __CPROVER_size_t main'''.split())

class FnEmit:
    def __init__(s, em, f):
        s.em = em; s.f = f
        s.names = {}
        s.decls = collections.OrderedDict()
        s.body = []

    def lname(s, n):
        if n not in s.names:
            c = san(n)
            if re.fullmatch(r'\d+', n): c = 't' + n
            base = c; i = 1
            while c in s.names.values() or c in CKW or c in ('new', 'delete', 'class', 'template', 'register', 'auto', 'int', 'char', 'long', 'short', 'float', 'double', 'if', 'else', 'for', 'while', 'do', 'switch', 'case', 'default', 'break', 'continue', 'return', 'goto', 'struct', 'union', 'enum', 'void', 'const', 'static', 'extern', 'signed', 'unsigned', 'sizeof', 'typedef', 'volatile', 'inline', 'restrict'):
                c = '%s_%d' % (base, i); i += 1
            s.names[n] = c
        return s.names[n]

    def declare(s, n, t):
        s.decls[s.lname(n)] = t

    def emit(s):
        em = s.em; f = s.f
        # parse all instructions first
        blocks = collections.OrderedDict()
        for bn, lines in f.blocks.items():
            blocks[bn] = [s.parse_inst(l) for l in lines]
        s.blocks = blocks
        # provenance: locals that are an i64* view of pointer-typed memory (bitcast T** -> i64*), as libstdc++'s atomic<T*> code makes them
        s.guarded = {}
        s.p64 = set()
        for bn, insts in blocks.items():
            for ins in insts:
                if ins['op'] == 'bitcast' and ins['dst'] is not None:
                    ft = ins['x'].ty; tt = ins['ty']
                    if ft.k == 'ptr' and ft.to.k == 'ptr' and tt.k == 'ptr' and tt.to.k == 'int' and tt.to.bits == 64:
                        s.p64.add(ins['dst'])
        # phi handling: collect per (pred -> [(dst, val)])
        s.phis = collections.defaultdict(list)
        for bn, insts in blocks.items():
            for ins in insts:
                if ins['op'] == 'phi':
                    for val, pred in ins['inc']:
                        s.phis[(pred, bn)].append((ins['dst'], val))
        # alloca promotion analysis
        s.promoted = {}
        uses = collections.Counter(); direct = collections.Counter()
        allocas = {}
        for bn, insts in blocks.items():
            for ins in insts:
                if ins['op'] == 'alloca' and ins.get('n') is None:
                    allocas[ins['dst']] = ins['ty']
        def count(v, how):
            if isinstance(v, V):
                if v.k == 'local' and v.name in allocas:
                    uses[v.name] += 1
                    if how: direct[v.name] += 1
                elif v.k == 'cast': count(v.x, False)
                elif v.k == 'gep':
                    count(v.base, False)
                    for i in v.idx: count(i, False)
        for bn, insts in blocks.items():
            for ins in insts:
                for key, val in ins.items():
                    if key in ('op', 'dst', 'ty'): continue
                    how = (ins['op'] == 'load' and key == 'ptr' and not ins.get('atomic')) or (ins['op'] == 'store' and key == 'ptr' and not ins.get('atomic'))
                    if isinstance(val, V): count(val, how)
                    elif isinstance(val, list):
                        for x in val:
                            if isinstance(x, V): count(x, False)
                            elif isinstance(x, tuple):
                                for y in x:
                                    if isinstance(y, V): count(y, False)
        for a, t in allocas.items():
            if uses[a] == direct[a]:
                s.promoted[a] = t
        allocas_all = set(ins['dst'] for bn, insts in blocks.items() for ins in insts if ins['op'] == 'alloca')
        # emit
        names = []
        for i, (t, pn, info) in enumerate(f.params):
            names.append(s.lname(pn) if pn else 'a%d' % i)
        ps = [em.ctype(t, names[i]) for i, (t, pn, info) in enumerate(f.params)]
        if f.va: ps.append('...')
        head = em.ctype(f.ret, '%s(%s)' % (san(f.name), ', '.join(ps) if ps else 'void'))
        order = s.layout(list(blocks.keys()), blocks)
        s.loops = s.find_loops(order, blocks)          # header -> (last_block, ordinal)
        em.floops[f.name] = len(s.loops)
        s.last_loc = None; s.cur_loc = None
        if em.di is not None and getattr(f, 'dbg', None):
            sp = em.di.subprogram(f.dbg)
            if sp: em.fsrc[f.name] = '%s:%d' % (sp[0], sp[1])
        s.loop_stack = []
        closes = collections.defaultdict(int)
        for bi, bn in enumerate(order):
            if bn in s.loops:
                last, k = s.loops[bn]
                s.body.append('LE_%s: ;' % san(bn))
                mac = 'CV_LOOP_%s_%d' % (san(f.name), k)
                em.loop_macros.append(mac)
                s.body.append('while (1) %s {' % mac)
                s.loop_stack.append(bn); closes[last] += 1
            s.body.append('%s: ;' % s.blabel(bn))
            for ins in blocks[bn]:
                s.cur_loc = None
                if em.di is not None and ins.get('dbg'):
                    loc = em.di.loc(ins['dbg'])
                    if loc and loc[0] and loc[1]:
                        s.cur_loc = loc
                        if loc != s.last_loc:
                            s.body.append('#line %d "%s"' % (loc[1], loc[0]))
                            s.last_loc = loc
                s.emit_inst(ins, bn)
            for _ in range(closes.get(bn, 0)):
                s.body.append('}'); s.loop_stack.pop()
        # per loop: the locals assigned inside it (for loop-contract assigns clauses)
        for h, (last, k) in s.loops.items():
            body_blocks = s.loop_body[h]
            loc = collections.OrderedDict()
            def mark_addr(v):
                if isinstance(v, V):
                    if v.k == 'local' and v.name in allocas_all:
                        if v.name in s.promoted: loc[s.lname(v.name)] = True
                        else: loc[s.lname(v.name) + '__mem'] = True
                    elif v.k == 'cast': mark_addr(v.x)
                    elif v.k == 'gep': mark_addr(v.base)
            for bn in body_blocks:
                for ins in blocks[bn]:
                    if ins['dst'] is not None and ins['op'] not in ('alloca',) and s.lname(ins['dst']) in s.decls:
                        loc[s.lname(ins['dst'])] = True
                        if (s.lname(ins['dst']) + '__phi') in s.decls: loc[s.lname(ins['dst']) + '__phi'] = True
                    for key, val in ins.items():
                        if key in ('op', 'dst', 'ty', 'dbg'): continue
                        if ins['op'] == 'load' and key == 'ptr': continue
                        if isinstance(val, V): mark_addr(val)
                        elif isinstance(val, list):
                            for x in val:
                                if isinstance(x, V): mark_addr(x)
                                elif isinstance(x, tuple):
                                    for y in x:
                                        if isinstance(y, V): mark_addr(y)
            # phi destinations assigned on edges leaving from body blocks
            for (pred, bn), ph in s.phis.items():
                if pred in body_blocks:
                    for d, v in ph:
                        loc[s.lname(d)] = True
                        if (s.lname(d) + '__phi') in s.decls: loc[s.lname(d) + '__phi'] = True
            em.loop_locals['CV_LOOP_LOCALS_%s_%d' % (san(f.name), k)] = list(loc) or ['cv_exc_pending']
        lines = [head, '{']
        for n, t in s.decls.items():
            lines.append('  %s;' % em.ctype(t, n))
        lines += ['  ' + b for b in s.body]
        lines.append('}')
        return (f.name, '\n'.join(lines))

    def is_p64(s, v):
        if v.k == 'local': return v.name in s.p64
        if v.k == 'cast' and v.op == 'bitcast':
            ft = v.x.ty; tt = v.ty
            return ft.k == 'ptr' and ft.to.k == 'ptr' and tt.k == 'ptr' and tt.to.k == 'int' and tt.to.bits == 64
        return False

    def asfx(s, t, ptr=None):
        if ptr is not None and t.k == 'int' and t.bits == 64 and s.is_p64(ptr): return 'p64'
        if t.k == 'ptr': return 'ptr'
        if t.k == 'int' and t.bits in (8, 16, 32, 64): return 'i%d' % t.bits
        raise Unsupported('atomic on type ' + tstr(t))

    def asite(s, op, order):
        s.em.atomic_sites.append(dict(fn=s.em.dm.get(s.f.name, s.f.name), op=op, order=order, src=('%s:%d' % s.cur_loc) if s.cur_loc else None))

    def blabel(s, bn):
        return 'BB_' + san(bn)

    def succs(s, insts):
        t = insts[-1]; op = t['op']
        if op == 'br': return [t['dest']] if 'dest' in t else [t['t'], t['f']]
        if op == 'switch': return [t['default']] + [l for _, l in t['cases']]
        if op == 'invoke': return [t['norm'], t['unw']]
        return []

    def natural_loops(s, order, blocks):
        idx = {b: i for i, b in enumerate(order)}
        succ = {b: [x for x in s.succs(blocks[b]) if x in idx] for b in order}
        pred = collections.defaultdict(list)
        for b in order:
            for x in succ[b]: pred[x].append(b)
        dom = {b: set(order) for b in order}; dom[order[0]] = {order[0]}
        ch = True
        while ch:
            ch = False
            for b in order[1:]:
                ps = [dom[p] for p in pred[b]]
                nd = (set.intersection(*ps) if ps else set()) | {b}
                if nd != dom[b]: dom[b] = nd; ch = True
        loops = {}
        for u in order:
            for h in succ[u]:
                if h in dom[u]:
                    body = {h, u}; st = [u]
                    while st:
                        x = st.pop()
                        if x == h: continue
                        for p in pred[x]:
                            if p not in body: body.add(p); st.append(p)
                    loops.setdefault(h, set()).update(body)
        return loops

    def layout(s, order, blocks):
        """block order in which every natural loop is contiguous and starts with its header (all control transfers are
        explicit gotos, so the order of blocks carries no meaning)"""
        # reverse post-order first: CBMC takes EVERY backward goto for a loop back-edge, so only real back edges may jump backwards
        idx0 = {b: i for i, b in enumerate(order)}
        succ0 = {b: [x for x in s.succs(blocks[b]) if x in idx0] for b in order}
        seen = set(); post = []
        stack = [(order[0], iter(sorted(succ0[order[0]], key=lambda x: -idx0[x])))]
        seen.add(order[0])
        while stack:
            b, it = stack[-1]
            nxt = next(it, None)
            if nxt is None:
                post.append(b); stack.pop()
            elif nxt not in seen:
                seen.add(nxt); stack.append((nxt, iter(sorted(succ0[nxt], key=lambda x: -idx0[x]))))
        rpo = list(reversed(post)) + [b for b in order if b not in seen]     # unreachable blocks keep their place at the end
        order = rpo
        loops = s.natural_loops(order, blocks)
        if not loops: return order
        def lay(seq, exclude_header=None):
            out = []; placed = set()
            sset = set(seq)
            for b in seq:
                if b in placed: continue
                if b in loops and b != exclude_header and loops[b] <= sset | {b}:
                    body = [x for x in seq if x in loops[b] and x != b]
                    grp = [b] + lay(body, None)
                    out += grp; placed |= set(grp)
                else:
                    out.append(b); placed.add(b)
            return out
        return lay(order)

    def find_loops(s, order, blocks):
        idx = {b: i for i, b in enumerate(order)}
        succ = {b: [x for x in s.succs(blocks[b]) if x in idx] for b in order}
        pred = collections.defaultdict(list)
        for b in order:
            for x in succ[b]: pred[x].append(b)
        # dominators (iterative)
        dom = {b: set(order) for b in order}; dom[order[0]] = {order[0]}
        ch = True
        while ch:
            ch = False
            for b in order[1:]:
                ps = [dom[p] for p in pred[b]]
                nd = (set.intersection(*ps) if ps else set()) | {b}
                if nd != dom[b]: dom[b] = nd; ch = True
        loops = {}
        for u in order:
            for h in succ[u]:
                if h in dom[u]:  # back edge u -> h
                    body = {h, u}; st = [u]
                    while st:
                        x = st.pop()
                        if x == h: continue
                        for p in pred[x]:
                            if p not in body: body.add(p); st.append(p)
                    loops.setdefault(h, set()).update(body)
        out = {}; k = 0
        for h in order:
            if h not in loops: continue
            body = loops[h]; ids = sorted(idx[b] for b in body)
            if ids[0] != idx[h] or ids != list(range(ids[0], ids[-1] + 1)):
                sys.stderr.write('warning: loop at %s in %s not contiguous; left as gotos\n' % (h, s.f.name)); continue
            out[h] = (order[ids[-1]], k); k += 1
        s.loop_body = {h: loops[h] for h in out}
        return out

    # ---- instruction parsing
    def parse_inst(s, line):
        mdbg = re.search(r',\s*!dbg\s+!(\d+)', line)
        line = re.sub(r',\s*![\w.]+\s+![\w.]+', '', line)   # strip trailing metadata attachments
        line = re.sub(r',\s*!heapallocsite\s+![\w.]+', '', line)
        p = P(tokenize(line))
        dst = None
        if p.peek()[0] == 'lid' and p.peek(1)[1] == '=':
            dst = unq(p.next()[1]); p.next()
        k, op = p.next()
        ins = dict(op=op, dst=dst, dbg=mdbg.group(1) if mdbg else None)
        if op in ('tail', 'musttail', 'notail'):
            k, op = p.next(); ins['op'] = op
        if op == 'alloca':
            if p.accept('inalloca'): pass
            ins['ty'] = p.type(); ins['n'] = None
            if p.accept(','):
                if p.peek()[1] == 'align': pass
                else:
                    t = p.type(); ins['n'] = parse_value(p, t)
        elif op == 'load':
            ins['atomic'] = p.accept('atomic'); p.accept('volatile')
            ins['ty'] = p.type(); p.expect(','); pt = p.type(); ins['ptr'] = parse_value(p, pt)
            if ins['atomic']:
                if p.peek()[1] == 'syncscope': p.next(); p.expect('('); p.next(); p.expect(')')
                ins['ord'] = p.next()[1]
        elif op == 'store':
            ins['atomic'] = p.accept('atomic'); p.accept('volatile')
            t = p.type(); ins['val'] = parse_value(p, t); p.expect(','); pt = p.type(); ins['ptr'] = parse_value(p, pt)
            if ins['atomic']:
                ins['ord'] = p.next()[1]
        elif op == 'getelementptr':
            p.accept('inbounds'); ins['bt'] = p.type(); p.expect(',')
            pt = p.type(); ins['base'] = parse_value(p, pt); ins['idx'] = []
            while p.accept(','):
                it = p.type(); ins['idx'].append(parse_value(p, it))
        elif op in ('bitcast', 'ptrtoint', 'inttoptr', 'trunc', 'zext', 'sext', 'fptosi', 'fptoui', 'sitofp', 'uitofp', 'fpext', 'fptrunc', 'addrspacecast'):
            t = p.type(); ins['x'] = parse_value(p, t); p.expect('to'); ins['ty'] = p.type()
        elif op in ('add', 'sub', 'mul', 'udiv', 'sdiv', 'urem', 'srem', 'and', 'or', 'xor', 'shl', 'lshr', 'ashr', 'fadd', 'fsub', 'fmul', 'fdiv'):
            while p.peek()[1] in ('nuw', 'nsw', 'exact', 'fast', 'nnan', 'ninf', 'nsz', 'arcp', 'contract', 'afn', 'reassoc'): p.next()
            ins['ty'] = p.type(); ins['a'] = parse_value(p, ins['ty']); p.expect(','); ins['b'] = parse_value(p, ins['ty'])
        elif op in ('icmp', 'fcmp'):
            ins['pred'] = p.next()[1]; t = p.type(); ins['cty'] = t; ins['a'] = parse_value(p, t); p.expect(','); ins['b'] = parse_value(p, t)
        elif op == 'br':
            if p.peek()[1] == 'label':
                p.next(); ins['dest'] = unq(p.next()[1])
            else:
                t = p.type(); ins['cond'] = parse_value(p, t); p.expect(','); p.expect('label'); ins['t'] = unq(p.next()[1]); p.expect(','); p.expect('label'); ins['f'] = unq(p.next()[1])
        elif op == 'ret':
            t = p.type(); ins['ty'] = t
            if t.k != 'void': ins['val'] = parse_value(p, t)
        elif op == 'phi':
            ins['ty'] = p.type(); ins['inc'] = []
            while True:
                p.expect('['); v = parse_value(p, ins['ty']); p.expect(','); b = unq(p.next()[1]); p.expect(']')
                ins['inc'].append((v, b))
                if not p.accept(','): break
        elif op == 'select':
            t = p.type(); ins['cond'] = parse_value(p, t); p.expect(','); t1 = p.type(); ins['ty'] = t1; ins['a'] = parse_value(p, t1); p.expect(','); t2 = p.type(); ins['b'] = parse_value(p, t2)
        elif op in ('call', 'invoke'):
            while p.peek()[0] == 'word' and (p.peek()[1] in CCONV or p.peek()[1] in ('fast', 'nnan', 'ninf', 'nsz')): p.next()
            skip_param_attrs(p)
            rt = p.type()
            # rt may be a full function type for varargs calls
            callee = parse_value(p, T('ptr', to=T('int', bits=8)))
            p.expect('(')
            args = []
            if not p.accept(')'):
                while True:
                    t = p.type(); info = skip_param_attrs(p)
                    if t.k == 'metadata':
                        # skip metadata operands entirely
                        depth = 0
                        while not (depth == 0 and p.peek()[1] in (',', ')')):
                            x = p.next()[1]
                            if x == '(': depth += 1
                            if x == ')': depth -= 1
                        args.append(None)
                    else:
                        args.append(parse_value(p, t))
                    if p.accept(')'): break
                    p.expect(',')
            ins['rt'] = rt.ret if rt.k == 'fn' else rt      # explicit function type (varargs callee) vs. plain return type
            ins['callee'] = callee; ins['args'] = args
            if op == 'invoke':
                while p.peek()[1] != 'to': p.next()
                p.expect('to'); p.expect('label'); ins['norm'] = unq(p.next()[1]); p.expect('unwind'); p.expect('label'); ins['unw'] = unq(p.next()[1])
        elif op == 'switch':
            t = p.type(); ins['val'] = parse_value(p, t); p.expect(','); p.expect('label'); ins['default'] = unq(p.next()[1]); p.expect('[')
            ins['cases'] = []
            while not p.accept(']'):
                ct = p.type(); cv = parse_value(p, ct); p.expect(','); p.expect('label'); ins['cases'].append((cv, unq(p.next()[1])))
        elif op == 'extractvalue':
            t = p.type(); ins['agg'] = parse_value(p, t); ins['aty'] = t; ins['path'] = []
            while p.accept(','): ins['path'].append(int(p.next()[1]))
        elif op == 'insertvalue':
            t = p.type(); ins['agg'] = parse_value(p, t); ins['aty'] = t; p.expect(','); t2 = p.type(); ins['val'] = parse_value(p, t2); ins['path'] = []
            while p.accept(','): ins['path'].append(int(p.next()[1]))
        elif op == 'landingpad':
            ins['ty'] = p.type(); ins['cleanup'] = False; ins['catches'] = []
            while not p.eof():
                w = p.next()[1]
                if w == 'cleanup': ins['cleanup'] = True
                elif w == 'catch':
                    t = p.type(); ins['catches'].append(parse_value(p, t))
                elif w == 'filter':
                    t = p.type(); parse_value(p, t)
        elif op == 'resume':
            t = p.type(); ins['val'] = parse_value(p, t)
        elif op == 'unreachable':
            pass
        elif op == 'cmpxchg':
            ins['weak'] = p.accept('weak'); p.accept('volatile')
            pt = p.type(); ins['ptr'] = parse_value(p, pt); p.expect(','); t = p.type(); ins['ty'] = t; ins['cmp'] = parse_value(p, t); p.expect(','); t2 = p.type(); ins['new'] = parse_value(p, t2)
            ins['so'] = p.next()[1]; ins['fo'] = p.next()[1]
        elif op == 'atomicrmw':
            p.accept('volatile'); ins['rmw'] = p.next()[1]
            pt = p.type(); ins['ptr'] = parse_value(p, pt); p.expect(','); t = p.type(); ins['ty'] = t; ins['val'] = parse_value(p, t); ins['ord'] = p.next()[1]
        elif op == 'fence':
            if p.peek()[1] == 'syncscope': p.next(); p.expect('('); p.next(); p.expect(')')
            ins['ord'] = p.next()[1]
        elif op == 'freeze':
            t = p.type(); ins['ty'] = t; ins['x'] = parse_value(p, t)
        else:
            raise Unsupported('inst %s in %s: %s' % (op, s.f.name, line))
        return ins

    # ---- instruction emission
    def val(s, v):
        if v.k == 'local' and v.name in s.promoted:
            return '(&%s)' % s.lname(v.name)
        return s.em.cval(v, s)

    def goto(s, frm, to):
        out = []
        ph = s.phis.get((frm, to))
        if ph:
            if len(ph) > 1:
                for i, (d, v) in enumerate(ph):
                    out.append('{ /*phi*/')
                    break
                tmp = []
                for i, (d, v) in enumerate(ph):
                    tmp.append('%s = %s;' % (s.lname(d) + '__phi', s.val(v)))
                out = tmp + ['%s = %s__phi;' % (s.lname(d), s.lname(d)) for d, v in ph]
                for d, v in ph:
                    s.decls[s.lname(d) + '__phi'] = s.decls.get(s.lname(d)) or s.phity[d]
            else:
                d, v = ph[0]
                out.append('%s = %s;' % (s.lname(d), s.val(v)))
        if to in getattr(s, 'loops', {}):
            if frm in s.loop_body[to]:
                if s.loop_stack and s.loop_stack[-1] == to: out.append('continue;')
                else: out.append('goto %s; /* back edge from nested loop */' % s.blabel(to))
            else:
                out.append('goto LE_%s;' % san(to))
        else:
            out.append('goto %s;' % s.blabel(to))
        return ' '.join(out)

    def emit_inst(s, ins, bn):
        em = s.em; op = ins['op']; dst = ins['dst']; B = s.body.append
        def setd(t, expr):
            s.declare(dst, t)
            B('%s = %s;' % (s.lname(dst), expr))
        if op in ('load', 'store') and not ins.get('atomic') and ins['ptr'].k == 'local' and ins['ptr'].name in s.guarded:
            mac, basee = s.guarded[ins['ptr'].name]
            B('%s(%s); /* permission check: guarded member */' % (mac, basee))
            # optional kind-specific hook (MACRO_load / MACRO_store), used by the lazy list materialisation of the chain-walk units
            B('#ifdef %s_%s' % (mac, op)); B('%s_%s(%s);' % (mac, op, basee)); B('#endif')
            em.perm_sites.append(dict(fn=em.dm.get(s.f.name, s.f.name), macro=mac, op=op, src=('%s:%d' % s.cur_loc) if s.cur_loc else None))
        if op == 'alloca':
            if dst in s.promoted:
                s.declare(dst, ins['ty'])
            else:
                if ins['n'] is not None:
                    raise Unsupported('dynamic alloca')
                s.decls[s.lname(dst) + '__mem'] = ins['ty']
                s.declare(dst, T('ptr', to=ins['ty']))
                B('%s = &%s__mem;' % (s.lname(dst), s.lname(dst)))
        elif op == 'load':
            ptr = ins['ptr']
            if ins['atomic']:
                s.asite('load', ins['ord'])
                setd(ins['ty'], '(%s)CV_ATOMIC_LOAD_%s(%s, %d)' % (em.ctype(ins['ty']), s.asfx(ins['ty'], ptr), s.val(ptr), ORD[ins['ord']]))
            elif ptr.k == 'local' and ptr.name in s.promoted:
                setd(ins['ty'], s.lname(ptr.name))
            elif s.is_p64(ptr) and ins['ty'].k == 'int' and ins['ty'].bits == 64:
                setd(ins['ty'], '(cv_i64)*(void **)%s /* pointer-typed memory read as i64 */' % s.val(ptr))
            else:
                setd(ins['ty'], '*%s' % s.val(ptr))
        elif op == 'store':
            ptr = ins['ptr']
            if ins['atomic']:
                s.asite('store', ins['ord'])
                B('CV_ATOMIC_STORE_%s(%s, %s, %d);' % (s.asfx(ins['val'].ty, ptr), s.val(ptr), s.val(ins['val']), ORD[ins['ord']]))
            elif ptr.k == 'local' and ptr.name in s.promoted:
                B('%s = %s;' % (s.lname(ptr.name), s.val(ins['val'])))
            elif s.is_p64(ptr) and ins['val'].ty.k == 'int' and ins['val'].ty.bits == 64:
                B('*(void **)%s = (void *)%s; /* i64 written to pointer-typed memory */' % (s.val(ptr), s.val(ins['val'])))
            else:
                B('*%s = %s;' % (s.val(ptr), s.val(ins['val'])))
        elif op == 'getelementptr':
            # result type: compute
            t = ins['bt']
            for ix in ins['idx'][1:]:
                rt = em.resolve(t)
                t = rt.els[int(ix.val)] if rt.k == 'struct' else rt.el
            base = ins['base']
            if em.perm and ins['bt'].k == 'named' and len(ins['idx']) == 2 and ins['idx'][1].k == 'int' and (ins['bt'].name, int(ins['idx'][1].val)) in em.perm \
                    and ins['idx'][0].k == 'int' and int(ins['idx'][0].val) == 0:
                s.guarded[dst] = (em.perm[(ins['bt'].name, int(ins['idx'][1].val))], s.val(base))
            bv = V('local', name=base.name, ty=base.ty) if base.k == 'local' else base
            expr = em.cgep(ins['bt'], base, ins['idx'], s) if not (base.k == 'local' and base.name in s.promoted) else em.cgep(ins['bt'], V('rawc', c='(&%s)' % s.lname(base.name), ty=base.ty), ins['idx'], s)
            setd(T('ptr', to=t), expr)
        elif op in ('bitcast', 'inttoptr', 'addrspacecast'):
            setd(ins['ty'], '(%s)%s' % (em.ctype(ins['ty']), s.val(ins['x'])))
        elif op == 'ptrtoint':
            setd(ins['ty'], '(%s)(cv_i64)%s' % (em.ctype(ins['ty']), s.val(ins['x'])))
        elif op in ('trunc', 'zext'):
            x = s.val(ins['x'])
            if ins['ty'].k == 'int' and ins['ty'].bits == 1: x = '(%s & 1)' % x
            setd(ins['ty'], '(%s)%s' % (em.ctype(ins['ty']), x))
        elif op == 'sext':
            fb = ins['x'].ty.bits
            sx = {1: '(%s ? -1 : 0)', 8: '(signed char)%s', 16: '(short)%s', 32: '(cv_s32)%s', 64: '(cv_s64)%s'}[fb] % s.val(ins['x'])
            setd(ins['ty'], '(%s)(cv_s64)%s' % (em.ctype(ins['ty']), sx))
        elif op in ('add', 'sub', 'mul', 'udiv', 'urem', 'and', 'or', 'xor', 'shl', 'lshr'):
            if ins['ty'].k == 'int' and ins['ty'].bits not in (1, 8, 16, 32, 64, 128) and op in ('add', 'sub', 'mul', 'shl'):
                raise Unsupported('wrapping arithmetic on i%d (non-standard width)' % ins['ty'].bits)
            c = {'add': '+', 'sub': '-', 'mul': '*', 'udiv': '/', 'urem': '%', 'and': '&', 'or': '|', 'xor': '^', 'shl': '<<', 'lshr': '>>'}[op]
            setd(ins['ty'], '(%s)(%s %s %s)' % (em.ctype(ins['ty']), s.val(ins['a']), c, s.val(ins['b'])))
        elif op in ('sdiv', 'srem', 'ashr'):
            c = {'sdiv': '/', 'srem': '%', 'ashr': '>>'}[op]
            st = {8: 'signed char', 16: 'short', 32: 'cv_s32', 64: 'cv_s64'}[ins['ty'].bits]
            setd(ins['ty'], '(%s)((%s)%s %s (%s)%s)' % (em.ctype(ins['ty']), st, s.val(ins['a']), c, st, s.val(ins['b'])))
        elif op == 'icmp':
            pred = ins['pred']; a = s.val(ins['a']); b = s.val(ins['b'])
            cty = ins['cty']
            if cty.k == 'ptr':
                a = '(cv_i64)(void*)%s' % a; b = '(cv_i64)(void*)%s' % b
                if pred in ('eq', 'ne'):
                    a = '(void*)' + s.val(ins['a']); b = '(void*)' + s.val(ins['b'])
            elif pred.startswith('s'):
                st = {1: 'signed char', 8: 'signed char', 16: 'short', 32: 'cv_s32', 64: 'cv_s64'}[cty.bits]
                a = '(%s)%s' % (st, a); b = '(%s)%s' % (st, b)
            c = {'eq': '==', 'ne': '!=', 'ugt': '>', 'uge': '>=', 'ult': '<', 'ule': '<=', 'sgt': '>', 'sge': '>=', 'slt': '<', 'sle': '<='}[pred]
            setd(T('int', bits=1), '(%s %s %s)' % (a, c, b))
        elif op == 'br':
            if 'dest' in ins:
                B(s.goto(bn, ins['dest']))
            else:
                B('if (%s) { %s } else { %s }' % (s.val(ins['cond']), s.goto(bn, ins['t']), s.goto(bn, ins['f'])))
        elif op == 'ret':
            if ins['ty'].k == 'void': B('return;')
            else: B('return %s;' % s.val(ins['val']))
        elif op == 'phi':
            s.declare(dst, ins['ty'])
            s.phity = getattr(s, 'phity', {}); s.phity[dst] = ins['ty']
        elif op == 'select':
            setd(ins['ty'], '(%s ? %s : %s)' % (s.val(ins['cond']), s.val(ins['a']), s.val(ins['b'])))
        elif op in ('call', 'invoke'):
            callee = ins['callee']
            args = [a for a in ins['args'] if a is not None]
            if callee.k == 'global':
                cn = callee.name
                if cn.startswith('llvm.dbg.') or cn.startswith('llvm.lifetime.') or cn.startswith('llvm.experimental.noalias') or cn == 'llvm.assume':
                    if op == 'invoke': B(s.goto(bn, ins['norm']))
                    return
                if cn == 'llvm.eh.typeid.for':
                    g = args[0]
                    while g.k == 'cast': g = g.x
                    if g.k != 'global': raise Unsupported('eh.typeid.for operand')
                    setd(ins['rt'], '(cv_i32)%d' % em.typeid(g.name))
                    return
                if cn.startswith('llvm.'):
                    fnm = 'cv_' + san(cn)
                    em.intr[fnm] = cn
                else:
                    cn = em.m.aliases.get(cn, cn)
                    em.want_func(cn); fnm = san(cn)
                callexpr = '%s(%s)' % (fnm, ', '.join(s.val(a) for a in args))
            else:
                key = (tstr(ins['rt']), tuple(tstr(a.ty) for a in args))
                if key not in em.icalls:
                    em.icalls[key] = ('cv_icall_%d' % len(em.icalls), ins['rt'], [a.ty for a in args])
                callexpr = '%s((void *)%s%s)' % (em.icalls[key][0], s.val(callee), ''.join(', ' + s.val(a) for a in args))
            if ins['rt'].k == 'void' or dst is None:
                B(callexpr + ';')
            else:
                setd(ins['rt'], callexpr)
            if op == 'invoke':
                B('if (cv_exc_pending) { %s } else { %s }' % (s.goto(bn, ins['unw']), s.goto(bn, ins['norm'])))
            else:
                # plain call that may throw: propagate
                B('CV_PROPAGATE(%s);' % ('' if s.f.ret.k == 'void' else 'CV_UNDEF(%s)' % em.ctype(s.f.ret)))
        elif op == 'switch':
            cs = ' '.join('case %s: %s' % (s.val(cv), s.goto(bn, l)) for cv, l in ins['cases'])
            B('switch (%s) { %s default: %s }' % (s.val(ins['val']), cs, s.goto(bn, ins['default'])))
        elif op == 'extractvalue':
            t = ins['aty']; acc = s.val(ins['agg'])
            for ix in ins['path']:
                rt = em.resolve(t)
                if rt.k == 'struct': acc += '.' + em.fld(t, ix); t = rt.els[ix]
                else: acc += '[%d]' % ix; t = rt.el
            setd(t, acc)
        elif op == 'insertvalue':
            s.declare(dst, ins['aty'])
            B('%s = %s;' % (s.lname(dst), s.val(ins['agg'])))
            t = ins['aty']; acc = s.lname(dst)
            for ix in ins['path']:
                rt = em.resolve(t)
                if rt.k == 'struct': acc += '.' + em.fld(t, ix); t = rt.els[ix]
                else: acc += '[%d]' % ix; t = rt.el
            B('%s = %s;' % (acc, s.val(ins['val'])))
        elif op == 'landingpad':
            s.declare(dst, ins['ty'])
            sel = '0'
            for c in reversed(ins['catches']):
                if c.k == 'null':
                    sel = '((cv_i32)%d)' % em.typeid(None)
                else:
                    g = c
                    while g.k == 'cast': g = g.x
                    if g.k != 'global': raise Unsupported('landingpad clause')
                    sel = '(cv_exc_match(cv_exc_tinfo, (void *)%s) ? (cv_i32)%d : %s)' % (s.val(g), em.typeid(g.name), sel)
            B('%s.f0 = cv_exc_obj; %s.f1 = %s;' % (s.lname(dst), s.lname(dst), sel))
            if not ins['cleanup']:
                B('if (%s.f1 == 0) { return%s; } /* no clause matches: unwinding continues in the caller */' % (s.lname(dst), '' if s.f.ret.k == 'void' else ' CV_UNDEF(%s)' % em.ctype(s.f.ret)))
            B('cv_exc_pending = 0; /* control is in the landing pad */')
        elif op == 'resume':
            B('cv_exc_pending = 1; return%s;' % ('' if s.f.ret.k == 'void' else ' CV_UNDEF(%s)' % em.ctype(s.f.ret)))
        elif op == 'unreachable':
            B('CV_UNREACHABLE();')
        elif op == 'cmpxchg':
            rty = T('struct', els=[ins['ty'], T('int', bits=1)], packed=False)
            s.declare(dst, rty)
            s.asite('cmpxchg' + ('_weak' if ins['weak'] else ''), ins['so'] + '/' + ins['fo'])
            B('{ %s = %s; %s.f1 = CV_CMPXCHG_%s(%s, &%s, %s, %d, %d, %d); %s.f0 = %s; }' % (
                em.ctype(ins['ty'], '__exp'), s.val(ins['cmp']), s.lname(dst), s.asfx(ins['ty'], ins['ptr']), s.val(ins['ptr']), '__exp', s.val(ins['new']), 1 if ins['weak'] else 0, ORD[ins['so']], ORD[ins['fo']], s.lname(dst), '__exp'))
        elif op == 'atomicrmw':
            s.asite('rmw_' + ins['rmw'], ins['ord'])
            setd(ins['ty'], '(%s)CV_ATOMIC_RMW_%s_%s(%s, %s, %d)' % (em.ctype(ins['ty']), ins['rmw'].upper(), s.asfx(ins['ty'], ins['ptr']), s.val(ins['ptr']), s.val(ins['val']), ORD[ins['ord']]))
        elif op == 'fence':
            s.asite('fence', ins['ord'])
            B('CV_FENCE(%d);' % ORD[ins['ord']])
        elif op == 'freeze':
            setd(ins['ty'], s.val(ins['x']))
        else:
            raise Unsupported(op)

# allow raw C operand in cval
_old_cval = Emitter.cval
def _cval(self, v, fn=None):
    if v.k == 'rawc': return v.c
    return _old_cval(self, v, fn)
Emitter.cval = _cval

def cinit(em, v):
    k = v.k
    if k in ('cstruct', 'carray'):
        return '{ ' + ', '.join(cinit(em, e) for e in v.els) + ' }' if v.els else '{0}'
    if k == 'zero': return '{0}'
    if k == 'undef': return '{0}' if v.ty.k in ('struct', 'named', 'arr') else '0'
    if k == 'null': return '0'
    if k == 'int': return em.cval(v)
    if k == 'cstr':
        raw = v.val[2:-1] if v.val.startswith('c') else v.val[1:-1]
        bs = re.sub(r'\\([0-9A-Fa-f]{2})', lambda m: chr(int(m.group(1), 16)), raw)
        return '{ ' + ', '.join(str(ord(c)) for c in bs) + ' }'
    if k in ('global', 'cast', 'gep', 'binop'):
        return em.cval(v)
    raise Unsupported(k)

def demangle(names):
    out = subprocess.run(['c++filt'], input='\n'.join(names), capture_output=True, text=True).stdout.split('\n')
    return dict(zip(names, out))


def translate(ll_path, roots_rx, boundary_rx, out_prefix, names=None, no_names=False, types=None, gnames=None, opt_names=None, ptypes=None, perms=None):
    """roots_rx / boundary_rx: regexes on demangled signatures. names: {c_alias: regex-on-demangled (must match exactly one function)}.
    Writes out_prefix_decl.h, out_prefix_body.c, out_prefix.json. Returns summary dict."""
    text = open(ll_path).read()
    m = parse_module(text)
    set_type_names(m.types.keys())
    for n, f in m.funcs.items():
        if f.blocks is None and not re.match(r'^(_Z|__cxa_|__gxx_|__clang_|llvm\.|_Unwind_|__dynamic_cast)', n):
            EXTERN_C.add(n)
    dm = demangle(list(m.funcs.keys()))
    roots = [n for n, f in m.funcs.items() if f.blocks is not None and any(re.search(r, dm[n]) for r in roots_rx)]
    for r in roots_rx:
        if not any(re.search(r, dm[n]) for n, f in m.funcs.items() if f.blocks is not None):
            raise Unsupported('root pattern matches no defined function: %s' % r)
    em = Emitter(m, [])
    em.dm = dm
    if not no_names:
        import dwarfmd
        em.namer = dwarfmd.FieldNamer(text, m.types)
        em.di = em.namer.di
    else:
        em.di = None
    bnd = set(n for n in m.funcs if any(re.search(b, dm[n]) for b in boundary_rx))
    bnd |= {'__clang_call_terminate'} & set(m.funcs)        # supplied by lib/rt_core.c
    em.boundary_set = bnd
    em.boundary = []
    # permission instrumentation (DESIGN 3.4): (llvm struct name, field index) -> macro; every plain load/store through a GEP to such a
    # field is preceded by MACRO(pointer to the enclosing object)
    em.perm = {}
    for spec_, mac in (perms or {}).items():
        q, fld_ = spec_.rsplit('.', 1)
        if em.namer is None: raise Unsupported('--perm needs debug info')
        hits = [ln for ln, did in em.namer.map.items() if em.di.qualname(em.di.node(did)) == q]
        for ln in hits:
            ns = em.namer.names.get(ln) or []
            for k_, nm_ in enumerate(ns):
                if nm_ == fld_: em.perm[(ln, k_)] = mac
    for al, g in (gnames or {}).items():
        if g not in m.globals: raise Unsupported('global alias %s: @%s not in module' % (al, g))
        em.used_globals[g] = True
    em.run(roots)
    # ---- output
    decl = []
    done = set(); defs = []
    def need_struct(t):
        if t.k == 'named':
            emit_named(t.name)
        elif t.k == 'struct':
            key = tstr(t)
            if key not in em.lit_structs: em.ctype(t)
            nm = em.lit_structs[key][0]
            if ('L', nm) in done: return
            done.add(('L', nm))
            for e in t.els: need_struct(e)
            defs.append('struct %s { %s }%s;' % (nm, ' '.join(em.ctype(e, 'f%d' % i) + ';' for i, e in enumerate(t.els)) or 'char __empty;', ' __attribute__((packed))' if t.packed else ''))
        elif t.k == 'arr':
            need_struct(t.el)
    def emit_named(name):
        if name in done: return
        done.add(name)
        t = m.types[name]
        if t.k == 'opaque':
            return
        for e in t.els: need_struct(e)
        fields = ' '.join(em.ctype(e, em.fld(T('named', name=name), i)) + ';' for i, e in enumerate(t.els)) or 'char __empty;'
        defs.append('struct S_%s { %s }%s;' % (tsan(name), fields, ' __attribute__((packed))' if t.packed else ''))
    protos = []
    globs = []
    gdone = set()
    while True:
        todo = [g for g in em.used_globals if g not in gdone]
        if not todo and not em.pending: break
        em.drain()
        for g in todo:
            gdone.add(g)
            gi = m.globals.get(g)
            if gi is None:
                raise Unsupported('unknown global @%s' % g)
            if gi['init'] is None and gi.get('external'):
                continue
            init = ''
            if gi['init'] is not None:
                init = ' = ' + cinit(em, gi['init'])
            globs.append('%s%s; /* %s */' % (em.ctype(gi['ty'], 'G_' + san(g)), init, g))
    disp = em.dispatchers()
    em.drain()
    for fnm, cn in em.intr.items():
        f = m.funcs.get(cn)
        if f is not None:
            ps = [em.ctype(t) for (t, pn, info) in f.params]
            protos.append('%s; /* %s */' % (em.ctype(f.ret, '%s(%s)' % (fnm, ', '.join(ps) if ps else 'void')), cn))
    for key, (nm, rt, ats) in em.icalls.items():
        ps = ''.join(', ' + em.ctype(t) for t in ats)
        protos.append('%s;' % em.ctype(rt, '%s(void *%s)' % (nm, ps)))
    for n in em.protos:
        f = m.funcs.get(n)
        if f is not None:
            protos.append('%s; /* %s */' % (em.proto(f), dm.get(n, n)))
        else:
            raise Unsupported('call to unknown function @%s' % n)
    # requested type aliases: C alias -> C++ qualified class name (resolved through the debug info)
    talias = {}
    for al, q in (types or {}).items():
        if em.namer is None: raise Unsupported('type aliases need debug info')
        hits = [ln for ln, did in em.namer.map.items() if not ln.endswith('.base') and em.di.qualname(em.di.node(did)) == q]
        if len(hits) == 0:
            continue          # the class does not occur in this unit: no alias (contracts that need it are guarded by CV_HAS_<function>)
        if len(hits) != 1:
            raise Unsupported('type %s: %r matches %d llvm struct types %s' % (al, q, len(hits), hits[:4]))
        em.ctype(T('named', name=hits[0]))
        talias[al] = hits[0]
    changed = True
    while changed:
        before = (len(em.need_types), len(em.lit_structs))
        for n in list(em.need_types): emit_named(n)
        for key, (nm, t) in list(em.lit_structs.items()): need_struct(t)
        changed = before != (len(em.need_types), len(em.lit_structs))
    for n in m.types:
        if n in em.need_types: decl.append('struct S_%s;' % tsan(n))
    decl += defs
    for g in em.used_globals:
        gi = m.globals.get(g)
        if gi is not None:
            decl.append('extern %s;' % em.ctype(gi['ty'], 'G_' + san(g)))
    for al, ln in talias.items():
        decl.append('typedef struct S_%s %s;' % (tsan(ln), al))
    # type aliases taken from a function parameter: alias -> 'regex#k' (pointee type of parameter k; for closure types of lambdas)
    for al, spec_ in (ptypes or {}).items():
        rx, k = spec_.rsplit('#', 1)
        hits = [n for n in em.protos if n in m.funcs and re.search(rx, dm[n])]
        if len(hits) != 1: raise Unsupported('param type %s: %r matches %d functions' % (al, rx, len(hits)))
        t = m.funcs[hits[0]].params[int(k)][0]
        if t.k != 'ptr': raise Unsupported('param type %s: parameter %s is not a pointer' % (al, k))
        decl.append('typedef %s;' % em.ctype(t.to, al))
    decl += protos
    # aliases
    alias = {}
    allnames = dict(names or {}); allnames.update(opt_names or {})
    for al, rx in allnames.items():
        hits = [n for n in em.protos if n in m.funcs and re.search(rx, dm[n])]
        if not hits and al in (opt_names or {}):
            continue        # optional alias (an abstract callee the code under verification may or may not call)
        if len(hits) != 1:
            hits2 = [n for n in hits if n in em.emitted or n in bnd]
            if len(hits2) == 1: hits = hits2
        if len(hits) != 1:
            raise Unsupported('name %s: pattern %r matches %d functions in the unit (%s)' % (al, rx, len(hits), ', '.join(dm[h] for h in hits[:4])))
        alias[al] = hits[0]
        decl.append('#define %s %s' % (al, san(hits[0])))
        decl.append('#define CV_HAS_%s 1' % al)
    for al, g in (gnames or {}).items():
        decl.append('#define %s (&G_%s)' % (al, san(g)))
    body = ['''/* 64-bit atomics on pointer-typed memory (std::atomic<T*>): a library may supply native versions by defining CV_P64_*; default = the i64 family */
#ifndef CV_P64_LOAD
#define CV_P64_LOAD(p, o) cv_atomic_load_i64((cv_i64 *)(p), o)
#define CV_P64_STORE(p, v, o) cv_atomic_store_i64((cv_i64 *)(p), v, o)
#define CV_P64_CMPXCHG(p, e, d, w, so, fo) cv_cmpxchg_i64((cv_i64 *)(p), e, d, w, so, fo)
#define CV_P64_XCHG(p, v, o) cv_atomic_xchg_i64((cv_i64 *)(p), v, o)
#endif''']
    inv_alias = {san(v): k for k, v in alias.items()}
    for ln in em.loop_macros:
        mo = re.fullmatch(r'CV_LOOP_(.*)_(\d+)', ln)
        if mo and mo.group(1) in inv_alias:
            an = 'CV_LOOP_%s_%s' % (inv_alias[mo.group(1)], mo.group(2))
            decl.append('#define CV_LOOP_LOCALS_%s_%s CV_LOOP_LOCALS_%s_%s' % (inv_alias[mo.group(1)], mo.group(2), mo.group(1), mo.group(2)))
            decl.append('#define %s %s' % (ln, an))
            body.append('#ifndef %s\n#define %s\n#endif' % (an, an))
        else:
            body.append('#ifndef %s\n#define %s\n#endif' % (ln, ln))
    for k_, v_ in em.loop_locals.items():
        body.append('#define %s %s' % (k_, ', '.join(v_)))
    body += globs
    body.append(em.exc_match_fn())
    for fnm, cn in em.intr.items():
        mo = re.fullmatch(r'llvm\.(u|s)(add|sub|mul)\.with\.overflow\.i(32|64)', cn)
        if mo:
            f = m.funcs[cn]; sg, op, bits = mo.group(1), mo.group(2), int(mo.group(3))
            rt = em.ctype(f.ret); it = 'cv_i%d' % bits
            c = {'add': '+', 'sub': '-', 'mul': '*'}[op]
            if sg == 'u':
                body.append('%s %s(%s a, %s b) { %s r; cv_i128 x = (cv_i128)a %s (cv_i128)b; r.f0 = (%s)x; r.f1 = (x >> %d) != 0; return r; }' % (rt, fnm, it, it, rt, c, it, bits))
            else:
                body.append('%s %s(%s a, %s b) { %s r; __int128 x = (__int128)(cv_s%d)a %s (__int128)(cv_s%d)b; r.f0 = (%s)x; r.f1 = x != (__int128)(cv_s%d)(%s)x; return r; }' % (rt, fnm, it, it, rt, bits, c, bits, it, bits, it))
    for hk in em.icall_hooks:
        body.append('#ifndef %s\n#define %s(...)\n#endif' % (hk, hk))
    body += [src for _, src in em.out_funcs] + disp
    open(out_prefix + '_decl.h', 'w').write('\n'.join(decl) + '\n')
    open(out_prefix + '_body.c', 'w').write('\n\n'.join(body) + '\n')
    summ = dict(
        functions=[dict(mangled=n, c=san(n), demangled=dm[n], src=em.fsrc.get(n), loops=em.floops.get(n, 0)) for n, _ in em.out_funcs],
        boundary=[dict(mangled=n, demangled=dm[n]) for n in em.protos if n in m.funcs and (m.funcs[n].blocks is None or n in bnd) and n not in em.emitted],
        aliases=alias,
        struct_fields={san(k): v for k, v in (em.namer.names.items() if em.namer else []) if k in em.need_types},
        atomics=em.atomic_sites,
        perm_sites=em.perm_sites,
    )
    json.dump(summ, open(out_prefix + '.json', 'w'), indent=1)
    return summ

def main():
    ap = argparse.ArgumentParser()
    ap.add_argument('ll')
    ap.add_argument('--root', action='append', default=[])
    ap.add_argument('--boundary', action='append', default=[])
    ap.add_argument('--name', action='append', default=[], help='alias=regex')
    ap.add_argument('--name-opt', dest='name_opt', action='append', default=[], help='alias=regex (optional: skipped when the unit does not contain the function)')
    ap.add_argument('--type', action='append', default=[], help='alias=qualified C++ class name')
    ap.add_argument('--perm', action='append', default=[], help='qualified::class.member=MACRO : MACRO(obj) is emitted before every plain load/store of that member')
    ap.add_argument('--ptype', action='append', default=[], help='alias=regex#k : pointee type of parameter k of the matching function')
    ap.add_argument('--global', dest='gl', action='append', default=[], help='alias=llvm global name')
    ap.add_argument('--out')
    ap.add_argument('--list', action='store_true')
    a = ap.parse_args()
    if a.list:
        m = parse_module(open(a.ll).read())
        dm = demangle(list(m.funcs.keys()))
        for n, f in m.funcs.items():
            print('D' if f.blocks is not None else 'X', n, dm[n])
        return 0
    try:
        names = dict(x.split('=', 1) for x in a.name)
        translate(a.ll, a.root, a.boundary, a.out, names, types=dict(x.split('=', 1) for x in a.type), gnames=dict(x.split('=', 1) for x in a.gl), opt_names=dict(x.split('=', 1) for x in a.name_opt), ptypes=dict(x.split('=', 1) for x in a.ptype), perms=dict(x.split('=', 1) for x in a.perm))
    except (Unsupported, SyntaxError, KeyError) as e:
        sys.stderr.write('ir2c: UNSUPPORTED: %s: %s\n' % (type(e).__name__, e))
        return 2
    return 0

if __name__ == '__main__':
    sys.exit(main())
