#!/usr/bin/env python3
"""doctables.py evidence|fixed|open - markdown tables for DESIGN.md from evidence/*.json and known_findings.json"""
import sys, os, json, glob, re
V = os.path.dirname(os.path.dirname(os.path.abspath(__file__)))
what = sys.argv[1]
if what == 'evidence':
    print('| id | level | units | unbounded obligations (all discharged) | bounded obligations (separate) | known-finding obligations | wall s |'); print('|---|---|---|---|---|---|---|')
    for p in sorted(glob.glob(os.path.join(V, 'evidence', 'C*.json'))):
        e = json.load(open(p)); c = e['coverage']; us = c.get('units', [])
        kf = sum(u.get('known_finding_obligations', 0) for u in us)
        nb = sum(u['obligations'] for u in us if not u.get('bounded')); b = sum(u['obligations'] for u in us if u.get('bounded'))
        print('| %s | %s | %d | %d | %s | %s | %s |' % (e['property_id'], e.get('level'), len(us), nb, b or '-', kf or '-', round(sum(u.get('wall_s', 0) for u in us))))
else:
    k = json.load(open(os.path.join(V, 'known_findings.json')))
    if what == 'fixed':
        print('| # | property | /repo commit | what failed (defect, replay) |'); print('|---|---|---|---|')
        n = 0
        for e in k:
            m = re.match(r'fixed: property=(\S+) (\S+) (.*)', e['status'], re.S)
            if m: n += 1; print('| %d | %s | %s | %s |' % (n, m.group(1), m.group(2), m.group(3).replace('|', '/').replace('\n', ' ')))
    else:
        print('| id | property | what fails | why not repaired |'); print('|---|---|---|---|')
        for e in k:
            if e['status'] == 'open':
                w = e['what'].replace('|', '/'); a, _, b = w.partition('Not repaired:')
                print('| %s | %s | %s | %s |' % (e['id'], e['property'], a.strip(), b.strip() or '-'))
