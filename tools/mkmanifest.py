#!/usr/bin/env python3
"""regenerates MANIFEST.json from specs/*/units.py (META) and properties.jsonl"""
import json, os, importlib.util, subprocess
V = os.path.dirname(os.path.dirname(os.path.abspath(__file__)))
props = [json.loads(l) for l in open(os.path.join(V, 'properties.jsonl'))]
hooks_path = os.path.join(V, 'hooks.json')
hooks = json.load(open(hooks_path)) if os.path.exists(hooks_path) else {"guard": "COCLS_VERIF", "enable": "-DCOCLS_VERIF (only schedule replays compile with the guard on; verification units use the shipped text, guard off)", "baseline_off_cmd": "cmake --build /repo/_build && ctest --test-dir /repo/_build -j8 --timeout 900", "source_commits": [], "add_only": True}
m = {"version": 1, "setup_cmd": "python3 tools/selfcheck.py", "hooks": hooks,
     "engines": [{"name": "cbmc-dfcc", "path": "tools/run.py", "serves_properties": [], "kind_free_text": "contract-based deductive verification: clang++-14 IR of the real headers -> ir2c (mechanical C translation) -> goto-instrument --dfcc (enforce/replace contracts, loop contracts) -> cbmc 6.11 SAT"}],
     "checks": [], "not_applicable": [], "notes": "see DESIGN.md; known findings in known_findings.json"}
na_path = os.path.join(V, 'not_applicable.json')
na = json.load(open(na_path)) if os.path.exists(na_path) else {}
for p in props:
    pid = p['id']
    up = os.path.join(V, 'specs', pid, 'units.py')
    if not os.path.exists(up) or pid in na or not os.path.exists(os.path.join(V, 'specs', pid, 'READY')):
        m['not_applicable'].append({"property_id": pid, "reason": na.get(pid, "check under construction (contract units not yet built); see DESIGN.md section 5")})
        continue
    spec = importlib.util.spec_from_file_location('u_' + pid, up); mod = importlib.util.module_from_spec(spec); spec.loader.exec_module(mod)
    meta = getattr(mod, 'META', {})
    if meta.get('disabled'):
        m['not_applicable'].append({"property_id": pid, "reason": meta['disabled']}); continue
    m['engines'][0]['serves_properties'].append(pid)
    m['checks'].append({
        "property_id": pid,
        "quick_cmd": "./check %s quick" % pid,
        "thorough_cmd": "./check %s thorough" % pid,
        "evidence_file": "/verif/evidence/%s.json" % pid,
        "replay_cmd_template": "python3 tools/showreplay.py {path}",
        "engine": "cbmc-dfcc",
        "level_claimed": {"category": meta.get('level', 'proof'), "text": meta.get('level_text', ''), "design_ref": "DESIGN.md section 5, " + pid},
        "level_note": meta.get('level_note', ''),
        "technique": meta.get('technique', 'function contracts enforced on the translated real bodies by goto-instrument --dfcc + cbmc (SAT); bounded stand-ins labelled'),
    })
json.dump(m, open(os.path.join(V, 'MANIFEST.json'), 'w'), indent=1)
print('checks:', [c['property_id'] for c in m['checks']])
