// driver TU for the BOUNDED DRIVE of C15: real lowered listener coroutines on a real signal<int> (src/cocls/signal.h).
// Scenario (public API only): nlist (1..3) coroutine listeners + 1 connected callback, two emissions (rvalue, then by value / by
// lvalue reference), then every collector / signal handle is destroyed.  Each listener records what it received.
#include <cocls/signal.h>
using namespace cocls;
using SIG = signal<int>;
int g_frame_kind;                    // announces the frame type of the next coroutine allocation (lib/model_heap_frames.c)
struct c15_log { int n; int vals[4]; int canceled; int other_exc; int done; };
c15_log g_log[4];                    // [0..2] coroutine listeners, [3] the callback
int g_cb_limit;                      // the callback answers "continue" while it has seen fewer than g_cb_limit values
int g_cb_dtor;                       // number of callback functor objects destroyed (released), minus moved-from temporaries is checked by balance
// minimal detached coroutine type: starts at once, frees its frame when the body ends
struct c15_task {
    struct promise_type {
        c15_task get_return_object() { return {}; }
        std::suspend_never initial_suspend() noexcept { return {}; }
        std::suspend_never final_suspend() noexcept { return {}; }
        void return_void() {}
        void unhandled_exception() { g_log[0].other_exc += 100; }
    };
};
// a listener that does nothing between signals except re-await the emitter
#ifdef C15_NATIVE_REPLAY
#define C15_CORO_LINKAGE                // g++ gives the actor / destroy clones of an extern "C" coroutine the same assembler name
#else
#define C15_CORO_LINKAGE extern "C"     // C linkage: short, stable name of the frame struct in the translation (S_c15_listener_Frame)
#endif
C15_CORO_LINKAGE c15_task c15_listener(SIG::emitter e, c15_log *log) {
    try {
        for (;;) {
            int &v = co_await e;
            if (log->n < 4) log->vals[log->n] = v;
            log->n++;
        }
    } catch (const await_canceled_exception &) {
        log->canceled++;
    } catch (...) {
        log->other_exc++;
    }
    log->done++;
}
struct c15_drive_cb {
    c15_log *log;
    bool operator()(int &v) { if (log->n < 4) log->vals[log->n] = v; log->n++; return log->n < g_cb_limit; }
};
extern "C" void c15_drive(int nlist, int v1, int v2, int second_by_ref, int late) {
    {
        SIG s;
        SIG::collector c = s.get_collector();
        for (int i = 0; i < nlist; i++) { g_frame_kind = 1; c15_listener(s.get_emitter(), &g_log[i]); }
        s.connect(c15_drive_cb{&g_log[3]});
        c(std::move(v1));                                    // first emission; the discarded suspend point resumes the listeners
        if (late) { g_frame_kind = 1; c15_listener(s.get_emitter(), &g_log[2]); }     // a listener arriving between the signals gets only the second
        int x = v2;
        if (second_by_ref) c(x); else { const int &cx = x; c(cx); }
        // c, then s destroyed: last handle gone -> every still waiting listener is released with await_canceled_exception
    }
}
// awaiting an emitter whose signal is already gone fails immediately
extern "C" void c15_drive_disconnected(void) {
    SIG::emitter e;
    { SIG s; e = s.get_emitter(); }
    g_frame_kind = 1; c15_listener(e, &g_log[0]);
    SIG::emitter never;                  // default-constructed: never connected
    g_frame_kind = 1; c15_listener(never, &g_log[1]);
}

// ---- C15 audit item D4: the same two emissions made from INSIDE a coroutine (ready queue active) -------------------------------------
// A coroutine that is started the way cocls::async<T>::detach() starts one: initially suspended, its handle put into a suspend_point
// that is discarded - on a plain thread suspend_point::suspend_now() installs the ready queue and resumes the coroutine under it.
// The producer calls the collector twice and DISCARDS the returned suspend points, exactly like the README generator
//     void generate(signal<int> &sig) { auto c = sig.get_collector(); for (...) c(i); }
// does when it is called from a coroutine.  Nothing else happens between the signals: every listener only re-awaits its emitter.
struct c15_qtask {
    struct promise_type {
        c15_qtask get_return_object() { return {std::coroutine_handle<promise_type>::from_promise(*this)}; }
        std::suspend_always initial_suspend() noexcept { return {}; }
        std::suspend_never final_suspend() noexcept { return {}; }
        void return_void() {}
        void unhandled_exception() { g_log[3].other_exc += 100; }
    };
    std::coroutine_handle<> h;
};
// by_ref: both values travel through the lvalue overload, in an object of the CALLER of the producer (it outlives every listener
// resumption of this scenario - no dangling read here; the dead-object variant is shown natively by replay/c15_emit_in_coroutine.cpp);
// otherwise first by rvalue, then by value (the signal owns a copy).
C15_CORO_LINKAGE c15_qtask c15_producer(SIG::collector c, int v1, int v2, int by_ref, int *obj) {
    if (by_ref) { *obj = v1; c(*obj); *obj = v2; c(*obj); }
    else { c(std::move(v1)); const int &cx = v2; c(cx); }
    g_log[3].done++;                                          // the producer ran to its end
    co_return;
}
extern "C" void c15_drive_incoro(int nlist, int v1, int v2, int by_ref) {
    int obj = 0;
    {
        SIG s;
        for (int i = 0; i < nlist; i++) { g_frame_kind = 1; c15_listener(s.get_emitter(), &g_log[i]); }
        g_frame_kind = 2; c15_qtask p = c15_producer(s.get_collector(), v1, v2, by_ref, &obj);
        { suspend_point<void> start(p.h); }                    // discarded: the producer runs here, under the ready queue; the queue is flushed before this returns
        // s destroyed (the producer's collector went with its frame): every still waiting listener is released with await_canceled_exception
    }
}

// ---- signal<void>: the same scenario without a value - each emission resumes every waiting listener exactly once; disconnect wakes all.
using SIGV = signal<void>;
C15_CORO_LINKAGE c15_task c15_listener_v(SIGV::emitter e, c15_log *log) {
    try {
        for (;;) {
            co_await e;
            log->n++;
        }
    } catch (const await_canceled_exception &) {
        log->canceled++;
    } catch (...) {
        log->other_exc++;
    }
    log->done++;
}
struct c15_drive_cbv {
    c15_log *log;
    bool operator()() { log->n++; return log->n < g_cb_limit; }
};
extern "C" void c15_drive_void(int nlist, int late) {
    {
        SIGV s;
        SIGV::collector c = s.get_collector();
        for (int i = 0; i < nlist; i++) { g_frame_kind = 3; c15_listener_v(s.get_emitter(), &g_log[i]); }
        s.connect(c15_drive_cbv{&g_log[3]});
        c();                                                 // first emission
        if (late) { g_frame_kind = 3; c15_listener_v(s.get_emitter(), &g_log[2]); }
        c();                                                 // second emission
        // c, then s destroyed: every still waiting listener is released with await_canceled_exception
    }
}
