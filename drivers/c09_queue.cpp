// driver TU for C09 (awaitable queue): instantiates by use queue<int>, queue<void> (push, pop incl. the future-constructor lambda, unblock_pop, size, empty, ctor, dtor) and std_queue<void>.
#include <cocls/queue.h>
using namespace cocls;
extern "C" {
void drv_qi_ctor(queue<int> *q) { new(q) queue<int>(); }
void drv_qi_dtor(queue<int> *q) { q->~queue<int>(); }
void drv_qi_push(suspend_point<bool> *out, queue<int> *q, int v) { new(out) suspend_point<bool>(q->push(std::move(v))); }
void drv_qi_pop(future<int> *out, queue<int> *q) { new(out) future<int>(q->pop()); }
void drv_qi_unblock_pop(suspend_point<bool> *out, queue<int> *q, std::exception_ptr *e) { new(out) suspend_point<bool>(q->unblock_pop(*e)); }
std::size_t drv_qi_size(queue<int> *q) { return q->size(); }
bool drv_qi_empty(queue<int> *q) { return q->empty(); }

void drv_qv_ctor(queue<void> *q) { new(q) queue<void>(); }
void drv_qv_dtor(queue<void> *q) { q->~queue<void>(); }
void drv_qv_push(suspend_point<bool> *out, queue<void> *q) { new(out) suspend_point<bool>(q->push()); }
void drv_qv_pop(future<void> *out, queue<void> *q) { new(out) future<void>(q->pop()); }
void drv_qv_unblock_pop(suspend_point<bool> *out, queue<void> *q, std::exception_ptr *e) { new(out) suspend_point<bool>(q->unblock_pop(*e)); }
std::size_t drv_qv_size(queue<void> *q) { return q->size(); }
bool drv_qv_empty(queue<void> *q) { return q->empty(); }

void drv_sqv_emplace(primitives::std_queue<void> *q) { q->emplace(); }
void drv_sqv_pop(primitives::std_queue<void> *q) { q->pop(); }
std::size_t drv_sqv_size(const primitives::std_queue<void> *q) { return q->size(); }
bool drv_sqv_empty(const primitives::std_queue<void> *q) { return q->empty(); }
}
