// driver TU for the BOUNDED DRIVE of C18: the really lowered callback_await_coro (src/cocls/callback_awaiter.h) awaiting a real
// future<int>, for outcome (value / exception / dropped promise) x timing (resolved before / after registration) x storage
// (default_storage through callback_await, a counting storage through callback_await_alloc).
#include <cocls/callback_awaiter.h>
#include <cocls/future.h>
#include <cocls/future_conv.h>
using namespace cocls;
int g_frame_kind;                       // announces the frame type of the next coroutine allocation (lib/model_heap_frames.c)
struct c18_error { int code; };
struct c18_rec { int calls; int has_value; int value; int exc_canceled; int exc_error; int exc_code; int exc_other; int calls_at_return; };
c18_rec g_rec;
int g_st_allocs, g_st_deallocs; unsigned long g_st_alloc_size, g_st_dealloc_size; void *g_st_block, *g_st_freed;
struct c18_count_storage {
    void *alloc(std::size_t n) { ++g_st_allocs; g_st_alloc_size = n; g_st_block = ::operator new(n); return g_st_block; }
    static void dealloc(void *p, std::size_t n) { ++g_st_deallocs; g_st_dealloc_size = n; g_st_freed = p; ::operator delete(p); }
};
struct c18_record_fn {
    void operator()(await_result<int> r) {
        g_rec.calls++;
        try { int &v = *r; g_rec.has_value = 1; g_rec.value = v; }
        catch (const await_canceled_exception &) { g_rec.exc_canceled++; }
        catch (const c18_error &e) { g_rec.exc_error++; g_rec.exc_code = e.code; }
        catch (...) { g_rec.exc_other++; }
    }
};
static void c18_resolve(promise<int> &p, int outcome, int v, int e) {
    if (outcome == 0) p(v);
    else if (outcome == 1) { try { throw c18_error{e}; } catch (...) { p(std::current_exception()); } }
    else { promise<int> dying(std::move(p)); }          // the promise is destroyed unresolved
}
struct c18_op {                         // the awaited operation: resolves its promise at once, or parks it for later
    promise<int> *parked; int before, outcome, v, e;
    void operator()(promise<int> p) const { if (before) c18_resolve(p, outcome, v, e); else *parked = std::move(p); }
};
extern "C" void c18_drive(int outcome, int before, int counting, int v, int e) {
    promise<int> parked;
    c18_op op{&parked, before, outcome, v, e};
    c18_count_storage st;
    if (counting) { g_frame_kind = 2; callback_await_alloc<c18_count_storage, future<int> >(st, c18_record_fn{}, op); }
    else          { g_frame_kind = 1; callback_await<future<int> >(c18_record_fn{}, op); }
    g_rec.calls_at_return = g_rec.calls;
    if (!before) c18_resolve(parked, outcome, v, e);
}

// ---- composition drives of the non-coroutine adapters (cross-check of the contract decomposition): real promise resolution end to end
extern "C" void c18_probe(int tag);     // declared only: the harness records heap counters / callback counts at this point
static void c18_read(future<int> &f) {  // what a completion handler typically does with the completed future
    g_rec.calls++;
    try { int &v = f.value(); g_rec.has_value = 1; g_rec.value = v; }
    catch (const await_canceled_exception &) { g_rec.exc_canceled++; }
    catch (const c18_error &e) { g_rec.exc_error++; g_rec.exc_code = e.code; }
    catch (...) { g_rec.exc_other++; }
}
struct c18_mp_fn { void operator()(future<int> &f) { c18_read(f); } };
extern "C" void c18_drive_mp(int outcome, int counting, int v, int e) {
    c18_count_storage st;
    promise<int> p = counting ? make_promise<int>(c18_mp_fn{}, st) : make_promise<int>(c18_mp_fn{});
    c18_probe(1);
    c18_resolve(p, outcome, v, e);
}
extern "C" void c18_drive_discard(int outcome, int before, int v, int e) {
    promise<int> parked;
    c18_op op{&parked, before, outcome, v, e};
    discard([&]{ return future<int>(op); });
    c18_probe(1);
    if (!before) c18_resolve(parked, outcome, v, e);
}
struct c18_owner {
    suspend_point<void> done(future<int> &f) noexcept { c18_read(f); return {}; }
};
extern "C" void c18_drive_cfa(int outcome, int before, int v, int e) {
    promise<int> parked;
    c18_op op{&parked, before, outcome, v, e};
    c18_owner owner;
    call_fn_future_awaiter<&c18_owner::done> awt(owner);
    awt << [&]{ return future<int>(op); };
    c18_probe(1);
    if (!before) c18_resolve(parked, outcome, v, e);
}
int g_conv_calls;
struct c18_conv_ctx {
    int add, throws;
    long conv(int &v) { g_conv_calls++; if (throws) throw c18_error{v + 1000}; return (long)v + add; }
};
struct c18_lrec { int has_value; long value; int exc_canceled; int exc_error; int exc_code; int exc_other; int ready_at_probe; };
c18_lrec g_lrec;
extern "C" void c18_drive_conv(int outcome, int before, int conv_throws, int v, int e, int add) {
    promise<int> parked;
    c18_op op{&parked, before, outcome, v, e};
    c18_conv_ctx ctx{add, conv_throws};
    future_conv<&c18_conv_ctx::conv> conv(&ctx);
    future<long> out = conv << [&]{ return future<int>(op); };
    g_lrec.ready_at_probe = out.ready();
    c18_probe(1);
    if (!before) c18_resolve(parked, outcome, v, e);
    try { long &r = out.value(); g_lrec.has_value = 1; g_lrec.value = r; }
    catch (const await_canceled_exception &) { g_lrec.exc_canceled++; }
    catch (const c18_error &x) { g_lrec.exc_error++; g_lrec.exc_code = x.code; }
    catch (...) { g_lrec.exc_other++; }
}

// ---- audit E/D6: callback_await with a completion that THROWS while it handles the outcome ("runs exactly once per awaited operation").
// The details of the FIRST call are recorded (that is the call the property speaks about); every call is counted.
struct c18_throw_fn {
    int throws;
    void operator()(await_result<int> r) {
        if (g_rec.calls++ == 0) {
            try { int &v = *r; g_rec.has_value = 1; g_rec.value = v; }
            catch (const await_canceled_exception &) { g_rec.exc_canceled++; }
            catch (const c18_error &e) { g_rec.exc_error++; g_rec.exc_code = e.code; }
            catch (...) { g_rec.exc_other++; }
        }
        if (throws) throw c18_error{-1};        // the consumer fails while handling the outcome
    }
};
extern "C" void c18_drive_cbthrow(int outcome, int before, int throws, int v, int e) {
    promise<int> parked;
    c18_op op{&parked, before, outcome, v, e};
    g_frame_kind = 3; callback_await<future<int> >(c18_throw_fn{throws}, op);
    g_rec.calls_at_return = g_rec.calls;
    if (!before) c18_resolve(parked, outcome, v, e);
}

// ---- audit E/D7 + W5: the awaited operation cannot be STARTED - the function that starts it throws (callback_await: inside the awaitable's constructor,
// in the detached coroutine; discard: inside the factory).  Either the completion runs once with that exception, or the registering caller sees it.
struct c18_failing_op { int e; void operator()(promise<int> p) const { throw c18_error{e}; } };
int g_caller_saw, g_caller_code;
extern "C" void c18_drive_cbctor(int e) {
    c18_failing_op op{e};
    try { g_frame_kind = 4; callback_await<future<int> >(c18_record_fn{}, op); }
    catch (const c18_error &x) { g_caller_saw++; g_caller_code = x.code; }
    g_rec.calls_at_return = g_rec.calls;
}
extern "C" void c18_drive_discard_fail(int e) {
    c18_failing_op op{e};
    try { discard([&]{ return future<int>(op); }); }
    catch (const c18_error &x) { g_caller_saw++; g_caller_code = x.code; }
    c18_probe(1);
}

// ---- MOVE-ONLY payload (drivers/c09_mo_item.h) through callback_await: the operation's value is an object; the completion reads it and (take) moves it out
#include "c09_mo_item.h"
struct c18_mrec { int calls; int has_value; int tag; unsigned moved; int took_tag; unsigned took_moved; int exc_canceled; int exc_error; int exc_code; int exc_other; int calls_at_return; };
c18_mrec g_mrec;
struct c18_record_mo_fn {
    int take;
    void operator()(await_result<mo_item> r) {
        g_mrec.calls++;
        try {
            mo_item &v = *r; g_mrec.has_value = 1; g_mrec.tag = v.tag; g_mrec.moved = v.moved_cnt;
            if (take) { mo_item got(std::move(v)); g_mrec.took_tag = got.tag; g_mrec.took_moved = got.moved_cnt; }
        }
        catch (const await_canceled_exception &) { g_mrec.exc_canceled++; }
        catch (const c18_error &e) { g_mrec.exc_error++; g_mrec.exc_code = e.code; }
        catch (...) { g_mrec.exc_other++; }
    }
};
static void c18_resolve_mo(promise<mo_item> &p, int outcome, int v, int e) {
    if (outcome == 0) { mo_item it(v); p(std::move(it)); }
    else if (outcome == 1) { try { throw c18_error{e}; } catch (...) { p(std::current_exception()); } }
    else { promise<mo_item> dying(std::move(p)); }
}
struct c18_op_mo {
    promise<mo_item> *parked; int before, outcome, v, e;
    void operator()(promise<mo_item> p) const { if (before) c18_resolve_mo(p, outcome, v, e); else *parked = std::move(p); }
};
extern "C" void c18_drive_mo(int outcome, int before, int take, int v, int e) {
    promise<mo_item> parked;
    c18_op_mo op{&parked, before, outcome, v, e};
    g_frame_kind = 5; callback_await<future<mo_item> >(c18_record_mo_fn{take}, op);
    g_mrec.calls_at_return = g_mrec.calls;
    if (!before) c18_resolve_mo(parked, outcome, v, e);
}
