// driver TU for C13, value types: generator<c13_mv> (a value type whose MOVE differs from its COPY), generator<int, c13_mv>
// (an argument type that is not int).  Real C++ against the real headers; the members are instantiated by use.
//   c13_mv { payload, moved_from }: the copy leaves the source intact, the move empties it (payload 0) and flags it (moved_from 1) -
//   what std::string / std::vector / unique_ptr do.  A generator that moves the yielded object somewhere on its way to the consumer
//   is invisible with int and visible with this type: the object a later value() / a second reader sees is emptied.
#include <cocls/generator.h>
using namespace cocls;

struct c13_mv {
    int payload; int moved_from;
    c13_mv(int p) : payload(p), moved_from(0) {}
    c13_mv(const c13_mv &o) : payload(o.payload), moved_from(o.moved_from) {}
    c13_mv(c13_mv &&o) noexcept : payload(o.payload), moved_from(o.moved_from) { o.payload = 0; o.moved_from = 1; }
    c13_mv &operator=(const c13_mv &o) { payload = o.payload; moved_from = o.moved_from; return *this; }
    c13_mv &operator=(c13_mv &&o) noexcept { payload = o.payload; moved_from = o.moved_from; o.payload = 0; o.moved_from = 1; return *this; }
    ~c13_mv() {}
};
using MV = c13_mv;

extern "C" {
int g_frame_kind;                   // tells the heap model which frame type the next operator new allocates (lib/model_heap_frames.c)
int g_obs[8]; int g_moved[8]; int g_nobs;   // payload / moved_from flag of every value the consumer observed, in order
int g_again[8];                     // payload seen when the SAME item is read a second time (through the generator's own value())
int g_again_moved[8];
int g_end, g_other_exc;
int g_body_moved;                   // the body found one of its own yielded lvalues emptied when it was resumed
int g_args[8]; int g_args_moved[8]; int g_nargs;
}
enum { FK_MV = 1, FK_ARGMV = 2, FK_COSTEP = 3 };
static void obs(const MV &v) { if (g_nobs < 8) { g_obs[g_nobs] = v.payload; g_moved[g_nobs] = v.moved_from; } g_nobs++; }
static void again(const MV &v) { if (g_nobs >= 1 && g_nobs <= 8) { g_again[g_nobs - 1] = v.payload; g_again_moved[g_nobs - 1] = v.moved_from; } }

extern "C" {
// yields the first k of a (an lvalue that lives across the yield), b (a temporary), c (the same lvalue again, changed)
generator<MV> gen_mv(int k, int a, int b, int c) {
    MV x(a);
    if (k > 0) { co_yield x; if (x.moved_from || x.payload != a) g_body_moved++; }     // yield_value(MV &)
    if (k > 1) co_yield MV(b);                                                          // yield_value(MV &&)
    if (k > 2) { x.payload = c; co_yield x; if (x.moved_from || x.payload != c) g_body_moved++; }
}
// generator with an argument that is not an int: records what every activation receives
generator<int, MV> gen_argmv(int k, int a, int b) {
    MV &x0 = co_yield nullptr; g_args[0] = x0.payload; g_args_moved[0] = x0.moved_from; g_nargs = 1;
    if (k > 0) { MV &x = co_yield a; g_args[1] = x.payload; g_args_moved[1] = x.moved_from; g_nargs = 2; }
    if (k > 1) { MV &x = co_yield int(b); g_args[2] = x.payload; g_args_moved[2] = x.moved_from; g_nargs = 3; }
}
}

// minimal eager coroutine type for the co_await styles (driver-side; not part of the library)
struct task {
    struct promise_type {
        task get_return_object() { return {}; }
        std::suspend_never initial_suspend() noexcept { return {}; }
        std::suspend_never final_suspend() noexcept { return {}; }
        void return_void() {}
        void unhandled_exception() { g_other_exc++; }
    };
};
// one co_await step in a small coroutine of its own (a synchronous body lets it run to completion inline)
extern "C" task co_step_mv(generator<MV> *g, int style, int *out) {
    if (style == 3) { if (co_await g->next()) { obs(g->value()); again(g->value()); *out = 1; } else *out = 0; }
    else { future<MV> f = (*g)(); if (co_await f.has_value()) { obs(*f); again(g->value()); *out = 1; } else *out = 0; }
}
// one step in a given style: 1 = a value was observed (and then read a second time through value()), 0 = end of sequence
//   0 next()/value()   1 call -> future   2 fresh iterator, operator*   3 co_await next()   4 co_await of the call future   5 iterator operator->
static int step_mv(generator<MV> &g, int style) {
    try {
        switch (style) {
            case 0: if (g.next()) { obs(g.value()); again(g.value()); return 1; } return 0;
            case 1: { future<MV> f = g(); if (f.has_value()) { obs(*f); again(g.value()); return 1; } return 0; }
            case 2: { generator_iterator<generator<MV> > it(g); if (it != g.end()) { obs(*it); again(*it); return 1; } return 0; }
            case 5: { generator_iterator<generator<MV> > it(g); if (it != g.end()) { obs(*it.operator->()); again(g.value()); return 1; } return 0; }
            default: { int r = -1; g_frame_kind = FK_COSTEP; co_step_mv(&g, style, &r); return r; }
        }
    } catch (...) { g_other_exc++; return -1; }
}
extern "C" {
// bounded drive: every sequence of 3 steps over the styles, the value of every step read twice
int drive_mv(int k, int a, int b, int c, int s0, int s1, int s2, int s3) {
    g_frame_kind = FK_MV; auto g = gen_mv(k, a, b, c);
    int r = step_mv(g, s0); if (r == 1) r = step_mv(g, s1); if (r == 1) r = step_mv(g, s2); if (r == 1) r = step_mv(g, s3);
    if (r == 0) g_end++; else g_end += 100;
    return 1; }
// bounded drive: argument of a type that is not int, next(arg) (style 0) / call with an lvalue (style 1)
int drive_argmv(int k, int a, int b, int x0, int x1, int x2, int style) {
    g_frame_kind = FK_ARGMV; auto g = gen_argmv(k, a, b);
    MV xs[3] = {MV(x0), MV(x1), MV(x2)}; int i = 0;
    try {
        if (style == 0) { while (i < 3 && g.next(xs[i])) { if (g_nobs < 8) g_obs[g_nobs] = g.value(); g_nobs++; i++; } g_end++; }
        else { for (; i < 3; i++) { future<int> f = g(xs[i]); if (!f.has_value()) { g_end++; break; } if (g_nobs < 8) g_obs[g_nobs] = *f; g_nobs++; } }
    } catch (...) { g_other_exc++; }
    for (int j = 0; j < 3; j++) if (xs[j].moved_from) g_body_moved++;       // the caller's argument objects are only referred to, never consumed
    return 1; }

// ---- members for the contract units that the scenarios above do not instantiate
void drv_mv_postinc(generator_iterator<generator<MV> >::storage *out, generator_iterator<generator<MV> > *it) { new(out) generator_iterator<generator<MV> >::storage((*it)++); }
void drv_mv_inc(generator_iterator<generator<MV> > *it) { ++*it; }
MV *drv_mv_arrow(generator_iterator<generator<MV> > *it) { return it->operator->(); }
void drv_mv_begin(generator_iterator<generator<MV> > *out, generator<MV> *g) { new(out) generator_iterator<generator<MV> >(g->begin()); }
bool drv_mv_ready(generator<MV>::next_awt *n) { return n->await_ready(); }
void *drv_mv_get_id(generator<MV> *g) { return const_cast<void *>(g->get_id()); }
// the value constructors as plain functions (used by the abstract promise of unit unblock_future_mv: the future's value is
// constructed from what the generator hands over - by copy from an lvalue, by move from an rvalue)
void drv_mv_copy(MV *dst, const MV *src) { new(dst) MV(*src); }
void drv_mv_move(MV *dst, MV *src) { new(dst) MV(std::move(*src)); }
}
