// Move-only test payload for the queue / adapter properties (C09, C10, C18): NOT library code - a client type whose REAL special members
// (translated like everything else) make the life of every instance observable:
//   tag        the identity of the value (>= 0); a moved-from object carries -1
//   moved_cnt  how often THIS object has been the source of a move (0 = it still carries its value)
//   live       instances alive (constructed, not yet destroyed)
//   dead_valued / last_dead_tag   instances destroyed while still carrying their value (= an item that can never be delivered any more)
#pragma once
struct mo_item {
    int tag;
    unsigned moved_cnt;
    static inline unsigned live = 0;
    static inline unsigned dead_valued = 0;
    static inline int last_dead_tag = -1;
    explicit mo_item(int t) noexcept : tag(t), moved_cnt(0) { ++live; }
    mo_item(mo_item &&o) noexcept : tag(o.tag), moved_cnt(o.moved_cnt) { o.tag = -1; ++o.moved_cnt; ++live; }
    mo_item(const mo_item &) = delete;
    mo_item &operator=(const mo_item &) = delete;
    mo_item &operator=(mo_item &&) = delete;
    ~mo_item() { if (moved_cnt == 0) { ++dead_valued; last_dead_tag = tag; } --live; }
};
