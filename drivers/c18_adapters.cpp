// driver TU for C18: the callback adapters of future.h (future_with_cb, make_promise, discard, call_fn_future_awaiter) and
// future_conv.h, instantiated by use.  User code (callbacks, converters, future factories, storage) is DECLARED ONLY: it is the
// environment and gets abstract recording bodies in specs/C18.
#include <cocls/future.h>
#include <cocls/future_conv.h>
using namespace cocls;
struct c18_cb { void operator()(future<int> &f); int tag; };                 // completion callback of make_promise
struct c18_factory { future<int> operator()(); int tag; };                   // a function that returns a future<int>
struct c18_storage { void *alloc(std::size_t sz); static void dealloc(void *p, std::size_t sz); int tag; };
struct c18_obj {                                                             // owner object of call_fn_future_awaiter
    suspend_point<void> done(future<int> &f) noexcept;
    int tag;
};
struct c18_ctx {                                                             // converter context of future_conv
    long conv(int &v);
    suspend_point<void> conv_p(int &v, promise<long> &p);
    int tag;
};
long c18_conv_free(int &v);
using CB = future_with_cb<int, c18_cb>;
using CBS = future_with_cb_no_alloc<int, c18_storage, c18_cb>;
using CFA = call_fn_future_awaiter<&c18_obj::done>;
using CONV_M = future_conv<&c18_ctx::conv>;
using CONV_F = future_conv<&c18_conv_free>;
using CONV_P = future_conv<&c18_ctx::conv_p>;
extern "C" {
// ---- future_with_cb / make_promise
void drv_cb_ctor(CB *out, c18_cb *fn) { new(out) CB(std::move(*fn)); }
void drv_cb_get_promise(promise<int> *out, CB *f) { new(out) promise<int>(f->get_promise()); }
void drv_make_promise(promise<int> *out, c18_cb *fn) { new(out) promise<int>(make_promise<int>(std::move(*fn))); }
void drv_make_promise_st(promise<int> *out, c18_cb *fn, c18_storage *st) { new(out) promise<int>(make_promise<int>(std::move(*fn), *st)); }
// ---- discard
void drv_discard(c18_factory *fn) { discard(std::move(*fn)); }
// ---- call_fn_future_awaiter
void drv_cfa_ctor(CFA *out, c18_obj *o) { new(out) CFA(*o); }
void drv_cfa_shift(CFA *a, c18_factory *fn) { (*a) << std::move(*fn); }
// ---- future_conv
void drv_conv_m_ctor(CONV_M *out, c18_ctx *c) { new(out) CONV_M(c); }
void drv_conv_f_ctor(CONV_F *out) { new(out) CONV_F(); }
void drv_conv_p_ctor(CONV_P *out, c18_ctx *c) { new(out) CONV_P(c); }
void drv_conv_shift(future<long> *out, CONV_M *c, c18_factory *fn) { new(out) future<long>((*c) << std::move(*fn)); }
void drv_conv_call(CONV_M *c, promise<long> *p, c18_factory *fn) { (*c)(std::move(*p)) << std::move(*fn); }
void drv_conv_f_shift(future<long> *out, CONV_F *c, c18_factory *fn) { new(out) future<long>((*c) << std::move(*fn)); }
void drv_conv_p_shift(future<long> *out, CONV_P *c, c18_factory *fn) { new(out) future<long>((*c) << std::move(*fn)); }
}
// ---- future_conv for a VOID source (audit E/D3): To (Ctx::*)() and suspend_point<void> (Ctx::*)(promise<To>&); converters declared only
struct c18_ctx0 {
    long conv0();
    suspend_point<void> conv0_p(promise<long> &p);
    int tag;
};
using CONV_V = future_conv<&c18_ctx0::conv0>;
using CONV_VP = future_conv<&c18_ctx0::conv0_p>;
extern "C" {
void drv_conv_v_ctor(CONV_V *out, c18_ctx0 *c) { new(out) CONV_V(c); }
void drv_conv_vp_ctor(CONV_VP *out, c18_ctx0 *c) { new(out) CONV_VP(c); }
}
// ---- future_with_cb::operator<< (audit E "Adjacent" / audit A item 2): the helper class of make_promise registers its completion with the future a
// factory returns.  A wrapper with a fixed signature is the function under contract (the operator's return type is part of the proposed repair).
extern "C" {
void drv_cb_shift(CB *f, c18_factory *fn) { (*f) << std::move(*fn); }
}
// ---- MOVE-ONLY payload (drivers/c09_mo_item.h): the helper of make_promise and a converter whose source AND result are move-only objects
#include "c09_mo_item.h"
struct c18_cbm { void operator()(future<mo_item> &f); int tag; };           // completion callback of make_promise<mo_item>
struct c18_ctxm { mo_item conv(mo_item &v); int tag; };                     // converter mo_item -> mo_item
using CBM = future_with_cb<mo_item, c18_cbm>;
using CONV_MM = future_conv<&c18_ctxm::conv>;
extern "C" {
void drv_cbm_ctor(CBM *out, c18_cbm *fn) { new(out) CBM(std::move(*fn)); }
void drv_make_promise_mo(promise<mo_item> *out, c18_cbm *fn) { new(out) promise<mo_item>(make_promise<mo_item>(std::move(*fn))); }
void drv_conv_mm_ctor(CONV_MM *out, c18_ctxm *c) { new(out) CONV_MM(c); }
void drv_mo_make(mo_item *out, int t) { new(out) mo_item(t); }
}
