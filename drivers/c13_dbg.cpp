#include "c13_generator.cpp"
extern "C" {
int drive_dbg1(int a, int b, int v) {
    auto *src = new future<int>; auto *p = new promise<int>(src->get_promise());
    g_frame_kind = FK_AWAIT; auto *g = new generator<int>(gen_await(src, a, b));
    { future<int> f = (*g)(); if (!f.has_value()) { g_end++; } else obs(*f); }
    auto *f = new future<int>((*g)()); if (f->pending()) g_pending_seen++;
    return 1; }
int drive_dbg2(int a, int b, int v) {
    auto *src = new future<int>; auto *p = new promise<int>(src->get_promise());
    g_frame_kind = FK_AWAIT; auto *g = new generator<int>(gen_await(src, a, b));
    { future<int> f = (*g)(); if (!f.has_value()) { g_end++; } else obs(*f); }
    auto *f = new future<int>((*g)()); if (f->pending()) g_pending_seen++;
    auto *sp = new suspend_point<bool>((*p)(v)); 
    return 1; }
}
