// driver TU for C09, move-only payload: instantiates by use queue<mo_item> (push, pop incl. the future-constructor lambda, dtor; the constructor is the int one: no item involved).
#include <cocls/queue.h>
#include "c09_mo_item.h"
using namespace cocls;
extern "C" {
void drv_qm_dtor(queue<mo_item> *q) { q->~queue<mo_item>(); }
void drv_qm_push(suspend_point<bool> *out, queue<mo_item> *q, mo_item *v) { new(out) suspend_point<bool>(q->push(std::move(*v))); }
void drv_qm_pop(future<mo_item> *out, queue<mo_item> *q) { new(out) future<mo_item>(q->pop()); }
}
