// driver TU for C04: async<T> members (contract units) and scripted coroutines + drive scenarios (bounded drives of the lowered code).
#include <cocls/future.h>
#include <cocls/async.h>
#include <cocls/with_allocator.h>
#include <type_traits>
using namespace cocls;

// ---- instrumentation visible to the harness (plain globals; extern "C" names)
extern "C" { int g_body_runs[4]; int g_guard_ctor, g_guard_dtor; int g_seen_value, g_seen_exc, g_seen_canceled; int g_choice; }
struct Guard { Guard() { g_guard_ctor++; } Guard(const Guard &) { g_guard_ctor++; } Guard(Guard &&) { g_guard_ctor++; } ~Guard() { g_guard_dtor++; } };

// ---- scripted coroutines
static async<int> co_value(int x, Guard g) { Guard local; g_body_runs[0]++; co_return x + 1; }
static async<int> co_throw(int x, Guard g) { Guard local; g_body_runs[1]++; throw x; co_return 0; }
static async<int> co_susp(future<int> &f, Guard g) { Guard local; g_body_runs[2]++; int v = co_await f; co_return v * 2; }
static async<int> co_nested(int x, Guard g) { Guard local; g_body_runs[3]++; int v = co_await co_value(x, Guard()); co_return v + 100; }
static async<void> co_void(int x, Guard g) { Guard local; g_body_runs[0]++; co_return; }

extern "C" { int g_seen_pending; }      // the bound future was still pending when the scenario looked at it (value()/exception stored, but never marked ready: a waiter would sleep for ever)
static void observe(future<int> &f) {
    if (f.pending()) g_seen_pending++;
    try { g_seen_value = f.value(); }
    catch (const await_canceled_exception &) { g_seen_canceled++; }
    catch (int e) { g_seen_exc = e; }
}

// await_suspend of async<T>::co_awaiter behind a template, so that a rewrite changing its return type still compiles (discarded branches)
template<typename C> static void *caw_suspend_tmpl(C *c, std::coroutine_handle<> h) {
    using R = decltype(c->await_suspend(h));
    if constexpr (std::is_void_v<R>) { c->await_suspend(h); return nullptr; }
    else if constexpr (std::is_same_v<R, bool>) { return c->await_suspend(h) ? (void *)c : nullptr; }
    else { return c->await_suspend(h).address(); }
}
extern "C" {
// ---- drive scenarios (each returns 1 when it ran to the end)
int drive_start_value(int x) { future<int> f = co_value(x, Guard()).start(); observe(f); return 1; }
int drive_start_throw(int x) { future<int> f = co_throw(x, Guard()).start(); observe(f); return 1; }
int drive_start_promise(int x) { future<int> f; auto p = f.get_promise(); { auto sp = co_value(x, Guard()).start(p); } observe(f); return 1; }
int drive_start_claimed(int x) { future<int> f; auto p = f.get_promise(); p(7); { auto a = co_value(x, Guard()); auto sp = a.start(p); bool started = sp; if (started) return 0; } observe(f); return 1; }
int drive_detach(int x) { { auto sp = co_value(x, Guard()).detach(); } return 1; }
int drive_never_started(int x) { { auto a = co_value(x, Guard()); } return 1; }
int drive_join(int x) { g_seen_value = co_value(x, Guard()).join(); return 1; }
int drive_future_ctor(int x) { future<int> f(co_value(x, Guard())); observe(f); return 1; }
int drive_susp_resolved_later(int x) { future<int> src; auto p = src.get_promise(); future<int> f = co_susp(src, Guard()).start(); if (!f.pending()) return 0; { auto sp = p(x); } observe(f); return 1; }
int drive_susp_dropped(int x) { future<int> src; auto p = src.get_promise(); future<int> f = co_susp(src, Guard()).start(); { auto sp = p(drop); } observe(f); return 1; }
int drive_nested(int x) { future<int> f = co_nested(x, Guard()).start(); observe(f); return 1; }
int drive_void(int x) { future<void> f = co_void(x, Guard()).start(); try { f.value(); g_seen_value = 1; } catch (...) { g_seen_exc = 1; } return 1; }

// ---- members for the contract units
void *drv_start_coro_via_detach(suspend_point<void> *out, async<int> *a) { new(out) suspend_point<void>(a->detach()); return nullptr; }
void drv_start_p(suspend_point<bool> *out, async<int> *a, promise<int> *p) { new(out) suspend_point<bool>(a->start(*p)); }
void drv_async_dtor(async<int> *a) { a->~async<int>(); }
void drv_async_move(async<int> *out, async<int> *src) { new(out) async<int>(std::move(*src)); }
void drv_co_await(async<int>::co_awaiter *out, async<int> *a) { new(out) async<int>::co_awaiter(a->operator co_await()); }
bool drv_caw_ready(async<int>::co_awaiter *c) { return c->await_ready(); }
void *drv_caw_suspend(async<int>::co_awaiter *c, std::coroutine_handle<> h) { return caw_suspend_tmpl(c, h); }
int drv_caw_resume(async<int>::co_awaiter *c) { return c->await_resume(); }
void drv_prom_resolve(async_promise<int> *p, int v) { p->return_value(v); }
void drv_prom_unhandled(async_promise<int> *p) { try { throw 1; } catch (...) { p->unhandled_exception(); } }
void *drv_final_suspend(async_promise<int> *p) { auto fa = p->final_suspend(); return fa.await_suspend(std::coroutine_handle<async_promise<int>>::from_promise(*p)).address(); }
}
extern "C" {
int drive_dbg1(int x) { future<int> src; auto p = src.get_promise(); future<int> f = co_susp(src, Guard()).start(); int r = f.pending(); { auto sp = p(x); sp.clear(); } return r; }
}
extern "C" {
int drive_dbg2(int x) { future<int> src; auto p = src.get_promise(); future<int> f = co_susp(src, Guard()).start(); return f.pending(); }
int drive_dbg3(int x) { future<int> src; auto p = src.get_promise(); co_awaiter<future<int>> aw(src); malleable_awaiter *m = nullptr; bool r = aw.await_suspend(std::noop_coroutine()); return r; }
}
extern "C" {
int drive_dbg4(int x) { future<int> src; auto p = src.get_promise(); auto *aw = new co_awaiter<future<int>>(src); bool r = aw->await_suspend(std::noop_coroutine()); return r; }
struct Holder { void *a, *b; async_promise<int> pr; co_awaiter<future<int>> aw; future<int> *f; int v; long idx; };
int drive_dbg5(int x) { future<int> src; auto p = src.get_promise(); Holder *h = (Holder *)operator new(sizeof(Holder)); h->f = &src; new(&h->aw) co_awaiter<future<int>>(*h->f); bool r = h->aw.await_suspend(std::noop_coroutine()); return r; }
}
extern "C" {
int drive_dbg6(int x) { future<int> src; int r; { auto p = src.get_promise(); promise<int> q(std::move(p)); void *c = q.claim(); r = (c == &src); } return r && src.pending(); }
}

// ---- more scenarios with a coroutine that really suspends and is resumed later, and deeper / failing / suspending co_await chains
extern "C" { int g_outer_runs; }
static async<int> co_nested_throw(int x, Guard g) { Guard local; g_body_runs[3]++; int v = co_await co_throw(x, Guard()); co_return v + 100; }
static async<int> co_nested_catch(int x, Guard g) { Guard local; g_body_runs[3]++; int v; try { v = co_await co_throw(x, Guard()); } catch (int e) { v = e + 7; } co_return v; }
static async<int> co_nested_susp(future<int> &src, Guard g) { Guard local; g_body_runs[3]++; int v = co_await co_susp(src, Guard()); co_return v + 100; }
static async<int> co_nested3(int x, Guard g) { Guard local; g_outer_runs++; int v = co_await co_nested(x, Guard()); co_return v + 1000; }
static async<int> co_susp2(future<int> &f1, future<int> &f2, Guard g) { Guard local; g_body_runs[2]++; int a = co_await f1; Guard mid; int b = co_await f2; co_return a * 2 + b; }
static async<void> co_susp_void(future<int> &f, Guard g) { Guard local; g_body_runs[2]++; int v = co_await f; g_choice = v; co_return; }
static async<int> co_nested_void(int x, Guard g) { Guard local; g_body_runs[3]++; co_await co_void(x, Guard()); co_return x + 100; }
extern "C" {
int drive_susp_void(int x) { future<int> src; auto p = src.get_promise(); future<void> f = co_susp_void(src, Guard()).start(); if (!f.pending()) return 0; { auto sp = p(x); } if (f.pending()) g_seen_pending++; try { f.value(); g_seen_value = g_choice; } catch (...) { g_seen_exc = 1; } return 1; }
int drive_susp_twice(int x, int y) { future<int> s1, s2; auto p1 = s1.get_promise(); auto p2 = s2.get_promise(); future<int> f = co_susp2(s1, s2, Guard()).start(); if (!f.pending()) return 0;
    { auto sp = p1(x); } if (!f.pending() || g_guard_ctor != g_guard_dtor + 3) return 0; { auto sp = p2(y); } observe(f); return 1; }
int drive_susp_ready(int x) { future<int> src; { auto p = src.get_promise(); auto sp = p(x); } future<int> f = co_susp(src, Guard()).start(); observe(f); return 1; }
int drive_nested_void(int x) { future<int> f = co_nested_void(x, Guard()).start(); observe(f); return 1; }
int drive_susp_exception(int x) { future<int> src; auto p = src.get_promise(); future<int> f = co_susp(src, Guard()).start(); if (!f.pending()) return 0; try { throw x; } catch (...) { auto sp = p.set_exception(std::current_exception()); } observe(f); return 1; }
int drive_susp_promise(int x) { future<int> src; auto p = src.get_promise(); future<int> f; auto q = f.get_promise(); { auto sp = co_susp(src, Guard()).start(q); } if (!f.pending()) return 0; { auto sp = p(x); } observe(f); return 1; }
int drive_susp_detached(int x) { future<int> src; auto p = src.get_promise(); { auto sp = co_susp(src, Guard()).detach(); } if (g_body_runs[2] != 1 || g_guard_dtor == g_guard_ctor) return 0; { auto sp = p(x); } return 1; }
int drive_susp_detached_dropped(int x) { future<int> src; auto p = src.get_promise(); { auto sp = co_susp(src, Guard()).detach(); } if (g_body_runs[2] != 1 || g_guard_dtor == g_guard_ctor) return 0; { auto sp = p(drop); } return 1; }
int drive_detach_throw(int x) { { auto sp = co_throw(x, Guard()).detach(); } return 1; }
int drive_nested_throw(int x) { future<int> f = co_nested_throw(x, Guard()).start(); observe(f); return 1; }
int drive_nested_catch(int x) { future<int> f = co_nested_catch(x, Guard()).start(); observe(f); return 1; }
int drive_nested_susp(int x) { future<int> src; auto p = src.get_promise(); future<int> f = co_nested_susp(src, Guard()).start(); if (!f.pending()) return 0; { auto sp = p(x); } observe(f); return 1; }
int drive_nested_susp_dropped(int x) { future<int> src; auto p = src.get_promise(); future<int> f = co_nested_susp(src, Guard()).start(); if (!f.pending()) return 0; { auto sp = p(drop); } observe(f); return 1; }
int drive_nested3(int x) { future<int> f = co_nested3(x, Guard()).start(); observe(f); return 1; }
}

// ---- join() x completion by exception, async<int> and async<void> (the joiner is the bound party: it must see the exception)
static async<void> co_void_throw(int x, Guard g) { Guard local; g_body_runs[1]++; throw x; co_return; }
extern "C" {
int drive_join_throw(int x) { try { g_seen_value = co_throw(x, Guard()).join(); } catch (int e) { g_seen_exc = e; } return 1; }
int drive_join_void(int x) { co_void(x, Guard()).join(); g_seen_value = 1; return 1; }
int drive_join_void_throw(int x) { try { co_void_throw(x, Guard()).join(); g_seen_value = 1; } catch (int e) { g_seen_exc = e; } return 1; }
}

// ---- frame placed through a storage policy (with_allocator): the policy must get back exactly the block it handed out, with its size
extern "C" { int g_acc_allocs, g_acc_deallocs; unsigned long g_acc_alloc_sz, g_acc_dealloc_sz; void *g_acc_ptr, *g_acc_dealloc_ptr; }
struct AccStorage {
    void *alloc(std::size_t sz) { g_acc_allocs++; g_acc_alloc_sz = sz; g_acc_ptr = ::operator new(sz); return g_acc_ptr; }
    static void dealloc(void *p, std::size_t sz) { g_acc_deallocs++; g_acc_dealloc_sz = sz; g_acc_dealloc_ptr = p; ::operator delete(p); }
};
static with_allocator<AccStorage, async<int> > co_alloc_value(AccStorage &, int x, Guard g) { Guard local; g_body_runs[0]++; co_return x + 1; }
extern "C" {
int drive_alloc_value(int x) { AccStorage st; future<int> f = co_alloc_value(st, x, Guard()).start(); observe(f); return 1; }
int drive_alloc_never_started(int x) { AccStorage st; { async<int> a = co_alloc_value(st, x, Guard()); } return 1; }
}

// ---- wrappers with a FIXED signature around members whose return type a rewrite may change (the contract is then enforced on the wrapper)
#include <type_traits>
extern "C" {
void *drv_caw_suspend_any(async<int>::co_awaiter *c, void *haddr) { return caw_suspend_tmpl(c, std::coroutine_handle<>::from_address(haddr)); }
void drv_prom_unhandled_cur(async_promise<int> *p) { p->unhandled_exception(); }
}
