// Force-included (-include) in front of drivers/c12_sched.cpp for the unit start_future only.
// scheduler::start<Awt>() obtains the coroutine frame of its completion callback with alloca() (scheduler.h:243).  clang lowers the compiler builtin
// to a variable-sized `alloca` instruction, which tools/ir2c.py does not translate.  The builtin is therefore replaced by an external C function with
// the same signature; the unit supplies it as an abstract callee (a fresh block of the requested size).  Nothing of the cocls headers is changed:
// only the meaning of the libc macro `alloca` in this one translation unit.
#include <cstdlib>
#include <alloca.h>
#undef alloca
extern "C" void *cv_alloca(unsigned long n);
#define alloca(n) cv_alloca(n)
