// driver TU for C01, the other value types of its quantifier: void, move-only, reference, instance-counted, and a type whose
// constructor may throw.  Real headers, instantiated by use.  The value types are test payloads (not library code).
#include <cocls/future.h>
#include <utility>
using namespace cocls;

// ---- move-only payload: deleted copy, an int and a moved-from flag
struct c01_mo {
    int v; int moved;
    explicit c01_mo(int x) noexcept : v(x), moved(0) {}
    c01_mo(const c01_mo &) = delete;
    c01_mo &operator=(const c01_mo &) = delete;
    c01_mo(c01_mo &&o) noexcept : v(o.v), moved(0) { o.moved = 1; }
    c01_mo &operator=(c01_mo &&o) noexcept { v = o.v; moved = 0; o.moved = 1; return *this; }
    ~c01_mo() {}
};

// ---- instance-counted payload: every constructor / destructor is counted in globals
extern "C" { int c01_n_ctor, c01_n_copy, c01_n_move, c01_n_dtor; }
struct c01_cnt {
    int v;
    explicit c01_cnt(int x) noexcept : v(x) { ++c01_n_ctor; }
    c01_cnt(const c01_cnt &o) noexcept : v(o.v) { ++c01_n_copy; }
    c01_cnt(c01_cnt &&o) noexcept : v(o.v) { ++c01_n_move; }
    c01_cnt &operator=(const c01_cnt &) = delete;
    ~c01_cnt() { ++c01_n_dtor; }
};

// ---- payload whose constructor may throw (decided by a flag the verifier leaves arbitrary)
extern "C" { int c01_thr_flag; int c01_thr_live; }
struct c01_thr_error { int code; };
struct c01_thr {
    int v;
    explicit c01_thr(int x) : v(x) { if (c01_thr_flag) throw c01_thr_error{x}; ++c01_thr_live; }
    c01_thr(const c01_thr &o) : v(o.v) { if (c01_thr_flag) throw c01_thr_error{o.v}; ++c01_thr_live; }
    ~c01_thr() { --c01_thr_live; }
};

extern "C" {
// ---- promise<void> / future<void>
void *drv_v_claim(promise<void> *p) { return p->claim(); }
void drv_v_call(suspend_point<bool> *out, promise<void> *p) { new(out) suspend_point<bool>((*p)()); }
void drv_v_set(suspend_point<bool> *out, promise<void> *p) { new(out) suspend_point<bool>(p->set_value()); }
void drv_v_drop(suspend_point<bool> *out, promise<void> *p) { new(out) suspend_point<bool>((*p)(drop)); }
void drv_v_exc(suspend_point<bool> *out, promise<void> *p, std::exception_ptr *e) { new(out) suspend_point<bool>(p->set_exception(*e)); }
void drv_v_pdtor(promise<void> *p) { p->~promise<void>(); }
void drv_v_pmove(promise<void> *out, promise<void> *src) { new(out) promise<void>(std::move(*src)); }
void drv_v_pmove_assign(promise<void> *dst, promise<void> *src) { *dst = std::move(*src); }
bool drv_v_pbool(promise<void> *p) { return (bool)*p; }
void drv_v_fctor(future<void> *f) { new(f) future<void>(); }
void drv_v_get_promise(promise<void> *out, future<void> *f) { new(out) promise<void>(f->get_promise()); }
void drv_v_value(future<void> *f) { f->value(); }
void drv_v_fdtor(future<void> *f) { f->~future<void>(); }
bool drv_v_has_value_resume(future<void> *f) { auto hv = f->has_value(); return hv.await_resume(); }

// ---- move-only
void drv_mo_call(suspend_point<bool> *out, promise<c01_mo> *p, c01_mo *v) { new(out) suspend_point<bool>((*p)(std::move(*v))); }
void drv_mo_set(suspend_point<bool> *out, promise<c01_mo> *p, c01_mo *v) { new(out) suspend_point<bool>(p->set_value(std::move(*v))); }
void drv_mo_drop(suspend_point<bool> *out, promise<c01_mo> *p) { new(out) suspend_point<bool>((*p)(drop)); }
void drv_mo_exc(suspend_point<bool> *out, promise<c01_mo> *p, std::exception_ptr *e) { new(out) suspend_point<bool>(p->set_exception(*e)); }
void drv_mo_pdtor(promise<c01_mo> *p) { p->~promise<c01_mo>(); }
void drv_mo_fctor(future<c01_mo> *f) { new(f) future<c01_mo>(); }
void drv_mo_get_promise(promise<c01_mo> *out, future<c01_mo> *f) { new(out) promise<c01_mo>(f->get_promise()); }
c01_mo *drv_mo_value(future<c01_mo> *f) { return &f->value(); }
void drv_mo_fdtor(future<c01_mo> *f) { f->~future<c01_mo>(); }

// ---- reference
void drv_ref_call(suspend_point<bool> *out, promise<int &> *p, int *v) { new(out) suspend_point<bool>((*p)(*v)); }
void drv_ref_set(suspend_point<bool> *out, promise<int &> *p, int *v) { new(out) suspend_point<bool>(p->set_value(*v)); }
void drv_ref_drop(suspend_point<bool> *out, promise<int &> *p) { new(out) suspend_point<bool>((*p)(drop)); }
void drv_ref_exc(suspend_point<bool> *out, promise<int &> *p, std::exception_ptr *e) { new(out) suspend_point<bool>(p->set_exception(*e)); }
void drv_ref_pdtor(promise<int &> *p) { p->~promise<int &>(); }
void drv_ref_fctor(future<int &> *f) { new(f) future<int &>(); }
void drv_ref_get_promise(promise<int &> *out, future<int &> *f) { new(out) promise<int &>(f->get_promise()); }
int *drv_ref_value(future<int &> *f) { return &f->value(); }
void drv_ref_fdtor(future<int &> *f) { f->~future<int &>(); }

// ---- instance-counted: resolved by copy of an lvalue, by move of an rvalue, and by in-place construction from an int
void drv_cnt_call_copy(suspend_point<bool> *out, promise<c01_cnt> *p, const c01_cnt *v) { new(out) suspend_point<bool>((*p)(*v)); }
void drv_cnt_call_move(suspend_point<bool> *out, promise<c01_cnt> *p, c01_cnt *v) { new(out) suspend_point<bool>((*p)(std::move(*v))); }
void drv_cnt_call_emplace(suspend_point<bool> *out, promise<c01_cnt> *p, int v) { new(out) suspend_point<bool>((*p)(v)); }
void drv_cnt_drop(suspend_point<bool> *out, promise<c01_cnt> *p) { new(out) suspend_point<bool>((*p)(drop)); }
void drv_cnt_exc(suspend_point<bool> *out, promise<c01_cnt> *p, std::exception_ptr *e) { new(out) suspend_point<bool>(p->set_exception(*e)); }
void drv_cnt_pdtor(promise<c01_cnt> *p) { p->~promise<c01_cnt>(); }
void drv_cnt_fctor(future<c01_cnt> *f) { new(f) future<c01_cnt>(); }
void drv_cnt_get_promise(promise<c01_cnt> *out, future<c01_cnt> *f) { new(out) promise<c01_cnt>(f->get_promise()); }
c01_cnt *drv_cnt_value(future<c01_cnt> *f) { return &f->value(); }
void drv_cnt_fdtor(future<c01_cnt> *f) { f->~future<c01_cnt>(); }

// ---- throwing constructor
void drv_thr_call(suspend_point<bool> *out, promise<c01_thr> *p, int v) { new(out) suspend_point<bool>((*p)(v)); }
void drv_thr_call_copy(suspend_point<bool> *out, promise<c01_thr> *p, const c01_thr *v) { new(out) suspend_point<bool>((*p)(*v)); }
void drv_thr_pdtor(promise<c01_thr> *p) { p->~promise<c01_thr>(); }
void drv_thr_fdtor(future<c01_thr> *f) { f->~future<c01_thr>(); }
}

// ==== W4: promise_with_default<int> (specs/C01/pwd_spec.h) and promise<T>::bind() (specs/C01/bind_spec.h) ====
// bound payloads of 64 and 200 bytes: an int in front, an int at the very end (both observed by the contracts)
struct c01_big64 { int v; char pad[56]; int tail; };
struct c01_big200 { int v; char pad[192]; int tail; };
static_assert(sizeof(c01_big64) == 64 && sizeof(c01_big200) == 200, "payload sizes");
// whatever bind() returns (today: the closure type of the lambda in promise<T>::bind)
using c01_bind_int_t = decltype(std::declval<promise<int> &>().bind(std::declval<int &>()));
using c01_bind_b64_t = decltype(std::declval<promise<c01_big64> &>().bind(std::declval<c01_big64 &>()));
using c01_bind_b200_t = decltype(std::declval<promise<c01_big200> &>().bind(std::declval<c01_big200 &>()));
extern "C" {
// ---- promise_with_default<int>
void drv_pwd_ctor(promise_with_default<int> *out, promise<int> *src, int d) { new(out) promise_with_default<int>(std::move(*src), d); }
void drv_pwd_dtor(promise_with_default<int> *p) { p->~promise_with_default<int>(); }
void drv_pwd_move(promise_with_default<int> *out, promise_with_default<int> *src) { new(out) promise_with_default<int>(std::move(*src)); }
void drv_pwd_move_assign(promise_with_default<int> *dst, promise_with_default<int> *src) { *dst = std::move(*src); }
// ---- bind(): create the closure, call it, destroy it
void drv_bind_int(c01_bind_int_t *out, promise<int> *p, int *v) { new(out) c01_bind_int_t(p->bind(*v)); }
void drv_bind_int_call(suspend_point<bool> *out, c01_bind_int_t *c) { new(out) suspend_point<bool>((*c)()); }
void drv_bind_int_dtor(c01_bind_int_t *c) { c->~c01_bind_int_t(); }
void drv_bind_b64(c01_bind_b64_t *out, promise<c01_big64> *p, c01_big64 *v) { new(out) c01_bind_b64_t(p->bind(*v)); }
void drv_bind_b64_call(suspend_point<bool> *out, c01_bind_b64_t *c) { new(out) suspend_point<bool>((*c)()); }
void drv_bind_b64_dtor(c01_bind_b64_t *c) { c->~c01_bind_b64_t(); }
void drv_bind_b200(c01_bind_b200_t *out, promise<c01_big200> *p, c01_big200 *v) { new(out) c01_bind_b200_t(p->bind(*v)); }
void drv_bind_b200_call(suspend_point<bool> *out, c01_bind_b200_t *c) { new(out) suspend_point<bool>((*c)()); }
void drv_bind_b200_dtor(c01_bind_b200_t *c) { c->~c01_bind_b200_t(); }
}
// ---- future<void>::has_value(): the awaiter it hands out (C02 unit fv_has_value: specs/C02/w_spec.h)
extern "C" {
void drv_v_has_value(future<void>::awaitable_bool *out, const future<void> *f) { new(out) future<void>::awaitable_bool(f->has_value()); }
}
