// Test payload whose constructor MAY THROW (C09): NOT library code - a client type. thr_item(int) throws thr_error when the global switch
// thr_item::fail is set (a nondet input of the verification harness), otherwise it stores the tag. Copy / move are the implicit trivial ones.
#pragma once
struct thr_error { int tag; };
struct thr_item {
    int tag;
    static inline int fail = 0;          // != 0: the next construction from int throws
    static inline unsigned built = 0;    // successful constructions from int
    explicit thr_item(int t) : tag(t) { if (fail) throw thr_error{t}; ++built; }
};
