// driver TU for C10, move-only payload: instantiates by use limited_queue<mo_item> (push, pop incl. the future-constructor lambda, unblock_push, dtor; the constructor is the int one: no item involved).
#include <cocls/queue.h>
#include "c09_mo_item.h"
using namespace cocls;
extern "C" {
void drv_lm_dtor(limited_queue<mo_item> *q) { q->~limited_queue<mo_item>(); }
void drv_lm_push(future<void> *out, limited_queue<mo_item> *q, mo_item *v) { new(out) future<void>(q->push(std::move(*v))); }
void drv_lm_pop(future<mo_item> *out, limited_queue<mo_item> *q) { new(out) future<mo_item>(q->pop()); }
void drv_lm_unblock_push(suspend_point<bool> *out, limited_queue<mo_item> *q, std::exception_ptr *e) { new(out) suspend_point<bool>(q->unblock_push(*e)); }
}
