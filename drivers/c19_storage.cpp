// driver TU for C19 (coroutine storage policies): instantiates (by use) alloc/dealloc, constructors, destructors and moves of
// every storage policy of coro_storage.h / alloca_storage.h / with_allocator.h, and the promise-level operator new/delete of
// custom_allocator_base for each of them.
// NOTE: coro_storage.h is not self-contained (uses std::atomic, std::uint8_t without including <atomic>/<cstdint>): it only
// compiles after another cocls header; async.h (needed anyway for a real promise type) is therefore included first.
#include <cocls/async.h>
#include <cocls/coro_storage.h>
#include <cocls/alloca_storage.h>
#include <cocls/with_allocator.h>
#include <vector>
using namespace cocls;

// the "extra object" attached to a frame by promise_extra_storage: construction / destruction are observable through two
// plain-C hooks (emitted by ir2c as cvx_c19_extra_ctor / cvx_c19_extra_dtor; the units supply counting bodies)
extern "C" void c19_extra_ctor(void *at, long v);
extern "C" void c19_extra_dtor(void *at);
struct Extra {
    long v; long w;
    explicit Extra(long x) : v(x), w(~x) { c19_extra_ctor(this, x); }
    Extra(const Extra &) = delete;
    Extra &operator=(const Extra &) = delete;
    ~Extra() { c19_extra_dtor(this); }
};
struct MakeExtra { long v; Extra operator()() const { return Extra(v); } };   // the factory handed to promise_extra_storage
using VecC = std::vector<char>;
using RBS = reusable_buffer_storage<VecC>;
using PES = promise_extra_storage<Extra>;                       // Alloc = default_storage
using PESR = promise_extra_storage<Extra, reusable_storage>;    // Alloc = reusable_storage
struct Host { int dummy; };                                      // "This" of a member coroutine (second operator new form)
template<typename A> using PT = typename with_allocator<A, async<int> >::promise_type;   // custom_allocator_base<A, async_promise<int>>

extern "C" {
// ---- default_storage
void *drv_ds_alloc(std::size_t sz) { return default_storage::alloc(sz); }
void drv_ds_dealloc(void *p, std::size_t sz) { default_storage::dealloc(p, sz); }
// ---- reusable_storage
void drv_rs_ctor(reusable_storage *out) { new(out) reusable_storage(); }
void drv_rs_move_ctor(reusable_storage *out, reusable_storage *src) { new(out) reusable_storage(std::move(*src)); }
void drv_rs_move_assign(reusable_storage *a, reusable_storage *b) { *a = std::move(*b); }
void drv_rs_dtor(reusable_storage *a) { a->~reusable_storage(); }
void *drv_rs_alloc(reusable_storage *a, std::size_t sz) { return a->alloc(sz); }
void drv_rs_dealloc(void *p, std::size_t sz) { reusable_storage::dealloc(p, sz); }
std::size_t drv_rs_capacity(const reusable_storage *a) { return a->capacity(); }
// ---- placement_alloc
void drv_pa_ctor(placement_alloc *out, void *p) { new(out) placement_alloc(p); }
void *drv_pa_alloc(placement_alloc *a, std::size_t sz) { return a->alloc(sz); }
void drv_pa_dealloc(void *p, std::size_t sz) { placement_alloc::dealloc(p, sz); }
// ---- reusable_storage_mtsafe
void drv_mt_ctor(reusable_storage_mtsafe *out) { new(out) reusable_storage_mtsafe(); }
void drv_mt_dtor(reusable_storage_mtsafe *a) { a->~reusable_storage_mtsafe(); }
void *drv_mt_alloc(reusable_storage_mtsafe *a, std::size_t sz) { return a->alloc(sz); }
void drv_mt_dealloc(void *p, std::size_t sz) { reusable_storage_mtsafe::dealloc(p, sz); }
// ---- stack_storage
void drv_ss_ctor(stack_storage *out, std::size_t *state) { new(out) stack_storage(*state); }
void drv_ss_set(stack_storage *a, void *p) { *a = p; }
std::size_t drv_ss_size(const stack_storage *a) { return *a; }
void *drv_ss_alloc(stack_storage *a, std::size_t sz) { return a->alloc(sz); }
void drv_ss_dealloc(void *p, std::size_t sz) { stack_storage::dealloc(p, sz); }
// ---- reusable_buffer_storage<std::vector<char>>
void drv_rb_ctor(RBS *out, VecC *v) { new(out) RBS(*v); }
void *drv_rb_alloc(RBS *a, std::size_t sz) { return a->alloc(sz); }
void drv_rb_dealloc(void *p, std::size_t sz) { RBS::dealloc(p, sz); }
// ---- promise_extra_storage<Extra, default_storage / reusable_storage>
void drv_pes_ctor(PES *out, long v) { new(out) PES(MakeExtra{v}); }
void drv_pes_dtor(PES *a) { a->~PES(); }
void *drv_pes_alloc(PES *a, std::size_t sz) { return a->alloc(sz); }
void drv_pes_dealloc(void *p, std::size_t sz) { PES::dealloc(p, sz); }
Extra *drv_pes_arrow(PES *a) { return a->operator->(); }
Extra *drv_pes_deref(PES *a) { return &**a; }
void drv_pesr_ctor(PESR *out, long v) { new(out) PESR(MakeExtra{v}); }
void drv_pesr_dtor(PESR *a) { a->~PESR(); }
void *drv_pesr_alloc(PESR *a, std::size_t sz) { return a->alloc(sz); }
void drv_pesr_dealloc(void *p, std::size_t sz) { PESR::dealloc(p, sz); }
// ---- custom_allocator_base<Allocator, async_promise<int>>: both placement forms of operator new, and operator delete
#define OPS(tag, A) \
  void *drv_new_##tag(std::size_t sz, A *st, int arg) { return PT<A>::operator new(sz, *st, arg); } \
  void *drv_new2_##tag(std::size_t sz, Host *h, A *st, int arg) { return PT<A>::operator new(sz, *h, *st, arg); }
/* drv_delete_<tag>: see OPSD at the end of this file (the call of operator delete is isolated there) */
OPS(ds, default_storage)
OPS(rs, reusable_storage)
OPS(pa, placement_alloc)
OPS(mt, reusable_storage_mtsafe)
OPS(ss, stack_storage)
OPS(rb, RBS)
OPS(pes, PES)
OPS(pesr, PESR)
}

// ======================================================================================================================
// additions (size hand-shake of promise_extra_storage / isolation of the promise's operator delete)
// ======================================================================================================================
// ---- operator delete of the promise, called the way the coroutine's destroy code calls it: the language looks the deallocation
// function up in the promise's scope and passes (ptr, frame size) when it takes a size, else (ptr).  The call goes through
// requires-expressions so that a change of the operator's signature leaves this TU compilable (all other C19 units stay decidable);
// such a change then shows up as a failed forwarder obligation of unit `ops` (wrong size / nothing reaches Allocator::dealloc).
template<typename P> inline void c19_promise_delete(void *p, std::size_t sz) {
    if constexpr (requires { P::operator delete(p, sz); }) P::operator delete(p, sz);
    else if constexpr (requires { P::operator delete(p); }) P::operator delete(p);
    // else: no usable deallocation function - nothing reaches the storage (the obligation "exactly one call" fails)
}
// ---- promise_extra_storage over the thread-safe reusable storage: the one inner policy of the library that is default
// constructible AND keeps a trailer (owner pointer) at ptr+size, i.e. that depends on getting back the size it was asked for
using PESM = promise_extra_storage<Extra, reusable_storage_mtsafe>;
extern "C" {
#define OPSD(tag, A) void drv_delete_##tag(void *p, std::size_t sz) { c19_promise_delete<PT<A> >(p, sz); }
OPSD(ds, default_storage)
OPSD(rs, reusable_storage)
OPSD(pa, placement_alloc)
OPSD(mt, reusable_storage_mtsafe)
OPSD(ss, stack_storage)
OPSD(rb, RBS)
OPSD(pes, PES)
OPSD(pesr, PESR)
void drv_pesm_ctor(PESM *out, long v) { new(out) PESM(MakeExtra{v}); }
void drv_pesm_dtor(PESM *a) { a->~PESM(); }
void *drv_pesm_alloc(PESM *a, std::size_t sz) { return a->alloc(sz); }
void drv_pesm_dealloc(void *p, std::size_t sz) { PESM::dealloc(p, sz); }
OPS(pesm, PESM)
OPSD(pesm, PESM)
}
