// driver TU for C06: instantiates (by use) every member of suspend_point<void> and the typed variants.
#include <cocls/suspend_point.h>
using namespace cocls;
extern "C" {
void drv_default(suspend_point<void> *out) { new(out) suspend_point<void>(); }
void drv_from_handle(suspend_point<void> *out, std::coroutine_handle<> h) { new(out) suspend_point<void>(h); }
void drv_move_ctor(suspend_point<void> *out, suspend_point<void> *src) { new(out) suspend_point<void>(std::move(*src)); }
void drv_merge(suspend_point<void> *a, suspend_point<void> *b) { *a << std::move(*b); }
void drv_merge_handle(suspend_point<void> *a, std::coroutine_handle<> h) { *a << std::move(h); }
void drv_move_assign(suspend_point<void> *a, suspend_point<void> *b) { *a = std::move(*b); }
std::size_t drv_size(const suspend_point<void> *a) { return a->size(); }
bool drv_empty(const suspend_point<void> *a) { return a->empty(); }
void *drv_pop(suspend_point<void> *a) { return a->pop().address(); }
void drv_clear(suspend_point<void> *a) { a->clear(); }
void drv_dtor(suspend_point<void> *a) { a->~suspend_point<void>(); }
bool drv_await_ready(const suspend_point<void> *a) { return a->await_ready(); }
void *drv_await_suspend(suspend_point<void> *a, std::coroutine_handle<> h) { return a->await_suspend(h).address(); }
void drv_typed_val(suspend_point<bool> *out, bool v) { new(out) suspend_point<bool>(v); }
void drv_typed_h(suspend_point<bool> *out, std::coroutine_handle<> h, bool v) { new(out) suspend_point<bool>(h, v); }
void drv_typed_from(suspend_point<bool> *out, suspend_point<void> *src, bool v) { new(out) suspend_point<bool>(std::move(*src), v); }
bool drv_typed_get(suspend_point<bool> *a) { return *a; }
bool drv_typed_await_resume(suspend_point<bool> *a) { return a->await_resume(); }
void drv_typed_int_from(suspend_point<int> *out, suspend_point<void> *src, int v) { new(out) suspend_point<int>(std::move(*src), v); }
int drv_typed_int_get(suspend_point<int> *a) { return *a; }
}
// a value type whose move differs from its copy: "the value attached to a typed suspend point is the one its producer supplied" - reading it does not consume it
// (seeded change C06-6: operator X() returning std::move(value))
struct c06_mv { int payload; int moved_from;
    c06_mv(int p = 0) : payload(p), moved_from(0) {}
    c06_mv(const c06_mv &o) : payload(o.payload), moved_from(0) {}
    c06_mv(c06_mv &&o) : payload(o.payload), moved_from(0) { o.payload = -1; o.moved_from = 1; }
    c06_mv &operator=(const c06_mv &o) { payload = o.payload; moved_from = 0; return *this; }
    c06_mv &operator=(c06_mv &&o) { payload = o.payload; moved_from = 0; o.payload = -1; o.moved_from = 1; return *this; } };
extern "C" {
void drv_typed_mv_get(c06_mv *out, suspend_point<c06_mv> *a) { new(out) c06_mv(a->operator c06_mv()); }
void drv_typed_mv_cget(c06_mv *out, const suspend_point<c06_mv> *a) { new(out) c06_mv(a->operator const c06_mv()); }
c06_mv *drv_typed_mv_await_resume(suspend_point<c06_mv> *a) { return &a->await_resume(); }
}
