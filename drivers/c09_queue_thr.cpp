// driver TU for C09, item type with a THROWING constructor: instantiates by use queue<thr_item>::push<int>(int&&) (emplace-style push: the item is
// constructed from the argument inside push - in the waiting consumer's future (hand-over branch) or in the item container (store branch)).
#include <cocls/queue.h>
#include "c09_thr_item.h"
using namespace cocls;
extern "C" {
void drv_qt_push(suspend_point<bool> *out, queue<thr_item> *q, int *v) { new(out) suspend_point<bool>(q->push(std::move(*v))); }
}
