// driver TU for C07/C08 (protocol M): cocls::mutex, instantiated by use (protected members through a derived accessor).
#include <cocls/mutex.h>
using namespace cocls;
struct mx_access : public mutex {
    using mutex::ready; using mutex::subscribe; using mutex::build_queue; using mutex::value;
};
// build_queue through a signature-tolerant helper: a rewrite that changes its parameter list must leave the other units decidable (seeded change C07-7)
template<typename M> static void c07_call_build_queue(M *m, awaiter *stop) { if constexpr (requires { m->build_queue(stop); }) m->build_queue(stop); else m->build_queue(); }
extern "C" {
bool drv_ready(mx_access *m) { return m->ready(); }
bool drv_subscribe(mx_access *m, awaiter *a) { return m->subscribe(a); }
void drv_build_queue(mx_access *m, awaiter *stop) { c07_call_build_queue(m, stop); }
void drv_release(suspend_point<void> *out, mutex::ownership *o) { new(out) suspend_point<void>(o->release()); }
void drv_ownership_dtor(mutex::ownership *o) { o->~ownership(); }
void drv_try_lock(mutex::ownership *out, mutex *m) { new(out) mutex::ownership(m->try_lock()); }
void drv_value(mutex::ownership *out, mx_access *m) { new(out) mutex::ownership(m->value()); }
bool drv_aw_ready(co_awaiter<mutex> *a) { return a->await_ready(); }
bool drv_aw_suspend(co_awaiter<mutex> *a, std::coroutine_handle<> h) { return a->await_suspend(h); }
void drv_aw_resume(mutex::ownership *out, co_awaiter<mutex> *a) { new(out) mutex::ownership(a->await_resume()); }
void drv_lock(co_awaiter<mutex> *out, mutex *m) { new(out) co_awaiter<mutex>(m->lock()); }
bool drv_own_bool(mutex::ownership *o) { return (bool)*o; }
}
// blocking lock path (lock().wait(), ownership(co_awaiter&&))
extern "C" {
void drv_aw_sync(co_awaiter<mutex> *a) { a->sync(); }
void drv_aw_wait(mutex::ownership *out, co_awaiter<mutex> *a) { new(out) mutex::ownership(a->wait()); }
void drv_own_from_awaiter(mutex::ownership *out, mutex *m) { new(out) mutex::ownership(m->lock()); }
}
// construction / destruction of the mutex itself (induction base of the history lemma: a fresh mutex is unlocked with nothing pending)
extern "C" {
void drv_mx_ctor(mutex *m) { new(m) mutex(); }
void drv_mx_dtor(mutex *m) { m->~mutex(); }
}
// move assignment of an ownership (a still-held target is released by the assignment)
extern "C" {
void drv_own_move_assign(mutex::ownership *dst, mutex::ownership *src) { *dst = std::move(*src); }
}

// ---- sequential end-to-end scenarios on the real members (bounded drive of C07/C08, specs/C07/h_seq_drive.c): no alias on any private member, so the
// scenarios stay decidable when a private helper changes its signature (seeded change C07-7)
extern "C" {
// S1: a request that finds the mutex free owns it at once; nothing is pending; its release frees the mutex and resumes nobody
int drive_seq_free(mx_access *m, awaiter *a) {
    bool suspended = m->subscribe(a);
    if (suspended) return 1;
    int r = 0;
    { mutex::ownership o(m->value()); }          // release by destruction
    return r; }
// S2: the owner took the mutex by try-lock; one request arrives and is queued; the release hands over to it exactly once; its release frees the mutex
int drive_seq_handover(mx_access *m, awaiter *b) {
    if (!m->ready()) return 1;
    if (!m->subscribe(b)) return 2;
    { mutex::ownership o(m->value()); }          // owner releases: b is granted
    { mutex::ownership o(m->value()); }          // b releases: nothing pending
    return 0; }
}
