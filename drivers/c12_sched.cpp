// driver TU for C12 (timer scheduler, src/cocls/scheduler.h): instantiation by use.
// -fno-access-control is not used: protected members are reached through a derived class.
#include <cocls/scheduler.h>
using namespace cocls;
namespace {
struct sched_access : scheduler {
    using scheduler::get_expired_lk;
    using scheduler::pop_item;
    using scheduler::compare_item;
    using scheduler::SchItem;
    using scheduler::SchVector;
};
}
using tp_t = std::chrono::system_clock::time_point;
extern "C" {
void drv_ctor(scheduler *out) { new(out) scheduler(); }
void drv_dtor(scheduler *s) { s->~scheduler(); }
void drv_schedule(scheduler *s, const void *id, scheduler::promise *p, tp_t tp) { s->schedule(id, std::move(*p), tp); }
void drv_get_expired(scheduler::expired *out, scheduler *s, tp_t now) { new(out) scheduler::expired(s->get_expired(now)); }
void drv_get_expired_lk(scheduler::expired *out, scheduler *s, tp_t now) { new(out) scheduler::expired(static_cast<sched_access *>(s)->get_expired_lk(now)); }
void drv_remove(scheduler::promise *out, scheduler *s, const void *id) { new(out) scheduler::promise(s->remove(id)); }
bool drv_cancel(scheduler *s, const void *id) { return s->cancel(id); }
bool drv_cancel_e(scheduler *s, const void *id, std::exception_ptr *e) { return s->cancel(id, *e); }
void drv_pop_item(scheduler *s) { static_cast<sched_access *>(s)->pop_item(); }
bool drv_compare_item(const void *a, const void *b) {
    return sched_access::compare_item(*static_cast<const sched_access::SchItem *>(a), *static_cast<const sched_access::SchItem *>(b)); }
void drv_sleep_until(future<void> *out, scheduler *s, tp_t tp, const void *id) { new(out) future<void>(s->sleep_until(tp, id)); }
void drv_sleep_for(future<void> *out, scheduler *s, long ms, const void *id) { new(out) future<void>(s->sleep_for(std::chrono::milliseconds(ms), id)); }
// interval(): instantiates the coroutine and with it the stop-callback lambda (a plain function in the IR)
void drv_interval(generator<std::size_t> *out, scheduler *s, long ms, std::stop_token *t) { new(out) generator<std::size_t>(s->interval(std::chrono::milliseconds(ms), *t)); }
}
// ---- start(awaitable) / thread mode / thread-pool mode (added for the worker units): instantiates start<Awt>, start_in, worker_coro<false>,
// worker_coro<true> and with them the worker's stop-callback lambda and its std::visit visitor (plain functions in the IR)
extern "C" {
int drv_start_future(scheduler *s, future<int> *f) { return s->start(*f); }
void drv_start_thread(scheduler *s, std::thread *t) { s->start(*t); }
void drv_start_pool(scheduler *s, thread_pool *p) { s->start(*p); }
}
