// driver TU for C13: generator<int> / generator<int,int> members (contract units, instantiated by use) and, for the bounded
// drives of the really lowered coroutines (DESIGN 3.8), scripted generator bodies + consumer scenarios.  Real C++ against the
// real headers; everything observable goes through plain globals that the C harness (specs/C13/h_drive.c) reads.
#include <cocls/generator.h>
// value carried by the result of a postfix ++ (generator_iterator::storage): read through the member, whatever representation a rewrite gives it
// (storage::operator* does not compile on the unchanged tree); keeps the driver compilable under such rewrites (seeded change C20-5)
template<typename S> static decltype(auto) cv_postfix_value(S &z) { if constexpr (requires { *z._v; }) return (*z._v); else return (z._v); }

using namespace cocls;

// ---- instrumentation visible to the harness
extern "C" {
int g_obs[8]; int g_nobs;          // values the consumer observed, in order
int g_end;                          // end-of-sequence indications the consumer observed
int g_exc_n, g_exc_at, g_exc_val;   // exceptions of the body seen by the consumer: count, position (= values observed before), payload
int g_nmv;                          // no_more_values_exception seen (asking a finished generator through a throwing style)
int g_other_exc;                    // anything else thrown at the consumer
int g_ctor, g_dtor;                 // instance counter of the RAII local inside the bodies
int g_args[8]; int g_nargs;         // arguments the body received, in order
int g_frame_kind;                   // tells the heap model which frame type the next operator new allocates (lib/model_heap_frames.c)
int g_pending_seen;                 // the future of an asynchronous step was pending before the consumer resolved the awaited operation
}
struct Guard { Guard() { g_ctor++; } Guard(const Guard &) = delete; ~Guard() { g_dtor++; } };
static void obs(int v) { if (g_nobs < 8) g_obs[g_nobs] = v; g_nobs++; }
static void arg(int v) { if (g_nargs < 8) g_args[g_nargs] = v; g_nargs++; }
enum { FK_VALS = 1, FK_THROW = 2, FK_ARG = 3, FK_AWAIT = 4, FK_CONSUMER = 5 };

// ---- scripted bodies (the SHAPE - k, pos - is chosen by the harness, the VALUES are symbolic)
extern "C" {
generator<int> gen_vals(int k, int a, int b, int c) {           // yields the first k of a, b, c
    Guard g;
    if (k > 0) co_yield a;                                       // yield_value(int &)
    if (k > 1) co_yield int(b);                                  // yield_value(int &&)
    if (k > 2) co_yield c;
}
generator<int> gen_throw(int pos, int a, int b, int c, int e) { // throws e after pos values
    Guard g;
    if (pos == 0) throw e;
    co_yield a;
    if (pos == 1) throw e;
    co_yield b;
    if (pos == 2) throw e;
    co_yield c;
    throw e;
}
generator<int, int> gen_arg(int k, int a, int b, int c) {       // records every argument it is resumed with
    Guard g;
    int x = co_yield nullptr; arg(x);
    if (k > 0) { x = co_yield a; arg(x); }
    if (k > 1) { x = co_yield int(b); arg(x); }
    if (k > 2) { x = co_yield c; arg(x); }
}
generator<int> gen_await(future<int> *f, int a, int b) {         // suspends on another awaitable between two yields
    Guard g;
    co_yield a;
    int v = co_await *f;
    co_yield v;
    co_yield b;
}
}

// ---- consumers
template<typename Fn> static void guarded(Fn &&fn) {
    try { fn(); }
    catch (int e) { g_exc_n++; g_exc_at = g_nobs; g_exc_val = e; }
    catch (const no_more_values_exception &) { g_nmv++; }
    catch (...) { g_other_exc++; }
}
// one step in a given style: 1 = a value was observed, 0 = end of sequence
static int step_next(generator<int> &g) { if (g.next()) { obs(g.value()); return 1; } return 0; }
static int step_future(generator<int> &g) { future<int> f = g(); if (f.has_value()) { obs(*f); return 1; } return 0; }
static int step_iter(generator<int> &g) { generator_iterator<generator<int> > it(g); if (it != g.end()) { obs(*it); return 1; } return 0; }
static int step(generator<int> &g, int style) { return style == 0 ? step_next(g) : style == 1 ? step_future(g) : step_iter(g); }

// minimal eager coroutine type for the co_await styles (driver-side; not part of the library)
struct task {
    struct promise_type {
        task get_return_object() { return {}; }
        std::suspend_never initial_suspend() noexcept { return {}; }
        std::suspend_never final_suspend() noexcept { return {}; }
        void return_void() {}
        void unhandled_exception() { guarded([] { throw; }); }
    };
};
extern "C" task co_consumer(generator<int> *g, int style) {
    for (;;) {
        if (style == 0) { if (!co_await g->next()) break; obs(g->value()); }
        else { future<int> f = (*g)(); if (!co_await f.has_value()) break; obs(*f); }
    }
    g_end++;
}

extern "C" {
// next()/value() loop; the end indication is sticky (asking again neither resumes the body nor yields anything);
// after the end value() has nothing to hand out
int drive_next(int k, int a, int b, int c) {
    g_frame_kind = FK_VALS; auto g = gen_vals(k, a, b, c);
    guarded([&] {
        for (;;) { auto n = g.next(); if (!n) break; if (!n) g_other_exc++;    // converting the same awaitable again neither steps nor changes its mind
                   obs(g.value()); }
        g_end++; if (g.next()) g_end += 100; if (!g.done()) g_end += 1000;
        try { (void)g.value(); g_end += 10000; } catch (const value_not_ready_exception &) {} });   // no (stale) value after the end
    return 1; }
// range-for
int drive_range_for(int k, int a, int b, int c) {
    g_frame_kind = FK_VALS; auto g = gen_vals(k, a, b, c);
    guarded([&] { for (int &v : g) obs(v); g_end++; });
    return 1; }
// explicit iterators: postfix increment (value moved into iterator::storage), operator->, operator==
// (storage::operator* / operator-> of iterator.h do not compile when instantiated - const member returning a non-const reference -
//  so `*it++` is unusable; the stored value is read through the public member instead)
int drive_iter_postfix(int k, int a, int b, int c) {
    g_frame_kind = FK_VALS; auto g = gen_vals(k, a, b, c);
    guarded([&] { auto it = g.begin(); auto e = g.end(); while (!(it == e)) { int *p = it.operator->(); int direct = *p; auto s = it++; if (cv_postfix_value(s) != direct) g_other_exc++; obs(cv_postfix_value(s)); } g_end++; });
    return 1; }
// calling the generator: future<int> per step; the step that hits the end yields a future without value
int drive_future(int k, int a, int b, int c) {
    g_frame_kind = FK_VALS; auto g = gen_vals(k, a, b, c);
    guarded([&] { for (;;) { future<int> f = g(); if (!f) { g_end++; break; } obs(f.value()); } });
    guarded([&] { future<int> f = g(); g_end += 100; });     // a finished generator called again: no_more_values_exception, no value
    return 1; }
// every sequence of styles (chosen by the harness), one style per step
int drive_mixed(int k, int a, int b, int c, int s0, int s1, int s2, int s3) {
    g_frame_kind = FK_VALS; auto g = gen_vals(k, a, b, c);
    guarded([&] { if (step(g, s0) && step(g, s1) && step(g, s2) && step(g, s3)) g_end += 100; else g_end++; });
    return 1; }
// body throws after pos values; consumer style chosen by the harness; afterwards the generator never yields again
int drive_throw(int pos, int a, int b, int c, int e, int style) {
    g_frame_kind = FK_THROW; auto g = gen_throw(pos, a, b, c, e);
    guarded([&] { while (step(g, style)) {} g_end++; });
    guarded([&] { if (step(g, style)) g_end += 100; });       // asking again: the same exception, or no_more_values_exception - never a value
    return 1; }
// generator with argument: next(arg)/value()
int drive_arg_next(int k, int a, int b, int c, int x0, int x1, int x2, int x3) {
    g_frame_kind = FK_ARG; auto g = gen_arg(k, a, b, c);
    int xs[4] = {x0, x1, x2, x3}; int i = 0;
    guarded([&] { while (i < 4 && g.next(xs[i])) { obs(g.value()); i++; } g_end++; });
    return 1; }
// generator with argument: call-to-future, argument passed as an rvalue
int drive_arg_future(int k, int a, int b, int c, int x0, int x1, int x2, int x3) {
    g_frame_kind = FK_ARG; auto g = gen_arg(k, a, b, c);
    int xs[4] = {x0, x1, x2, x3}; int i = 0;
    guarded([&] { for (; i < 4; i++) { future<int> f = g(int(xs[i])); if (!f.has_value()) { g_end++; break; } obs(*f); } });
    return 1; }
// early destruction: consume `stop` values, then drop the generator while it is parked (at initial suspend / at a yield / at the end)
int drive_early(int k, int stop, int a, int b, int c) {
    {
        g_frame_kind = FK_VALS; auto g = gen_vals(k, a, b, c);
        guarded([&] { for (int i = 0; i < stop; i++) if (!step_next(g)) { g_end++; break; } });
    }
    return 1; }
// move: a moved-to generator continues the sequence; the moved-from one is empty and done
int drive_move(int k, int a, int b, int c) {
    g_frame_kind = FK_VALS; auto g = gen_vals(k, a, b, c);
    guarded([&] { if (!step_next(g)) { g_end++; return; } generator<int> h(std::move(g)); if (!g.done()) g_other_exc++; while (step_next(h)) {} g_end++; });
    return 1; }
// consumer is a coroutine: co_await next() (style 0) / co_await of the future returned by the call (style 1); synchronous body
int drive_co_await(int k, int a, int b, int c, int style) {
    g_frame_kind = FK_VALS; auto g = gen_vals(k, a, b, c);
    g_frame_kind = FK_CONSUMER; co_consumer(&g, style);
    return 1; }
// body suspends on a future between yields; the consumer asks by call-to-future and then completes the awaited operation itself
int drive_await_future(int a, int b, int v) {
    future<int> src; auto p = src.get_promise();
    g_frame_kind = FK_AWAIT; auto g = gen_await(&src, a, b);
    guarded([&] {
        { future<int> f = g(); if (!f.has_value()) { g_end++; return; } obs(*f); }                      // a
        { future<int> f = g(); if (f.pending()) g_pending_seen++; { auto sp = p(v); } if (!f.has_value()) { g_end++; return; } obs(*f); }   // v, after the consumer resolved src
        while (step_future(g)) {}                                                                        // b, end
        g_end++; });
    return 1; }
// body awaits an already completed operation: stays synchronous, read through next()/value()
int drive_await_ready(int a, int b, int v, int style) {
    future<int> src; auto p = src.get_promise(); { auto sp = p(v); }
    g_frame_kind = FK_AWAIT; auto g = gen_await(&src, a, b);
    guarded([&] { while (step(g, style)) {} g_end++; });
    return 1; }
// consumer coroutine co_awaits the call-future of a body that suspends; the awaited operation is completed from outside
int drive_await_co_await(int a, int b, int v, int style) {
    future<int> src; auto p = src.get_promise();
    g_frame_kind = FK_AWAIT; auto g = gen_await(&src, a, b);
    g_frame_kind = FK_CONSUMER; co_consumer(&g, style);
    if (g_nobs == 1 && g_end == 0) g_pending_seen++;              // consumer is suspended behind the generator
    { auto sp = p(v); }
    return 1; }

// ---- members for the contract units that are not instantiated by the scenarios above
bool drv_not(generator<int>::next_awt *n) { return !*n; }
bool drv_gen_bool(generator<int> *g) { return (bool)*g; }
void drv_iter_ctor(generator_iterator<generator<int> > *out, generator<int> *g) { new(out) generator_iterator<generator<int> >(*g); }
bool drv_iter_ne(generator_iterator<generator<int> > *a, generator_iterator<generator<int> > *b) { return *a != *b; }
void drv_iter_inc(generator_iterator<generator<int> > *a) { ++*a; }
void *drv_get_id(generator<int> *g) { return const_cast<void *>(g->get_id()); }
bool drv_arg_done(generator<int, int> *g) { return g->done(); }
bool drv_arg_not(generator<int, int>::next_awt *n) { return !*n; }
bool drv_nawt_ready(generator<int>::next_awt *n) { return n->await_ready(); }
bool drv_nawt_subscribe(generator<int>::next_awt *n, awaiter *a) { return n->subscribe(a); }
void drv_gen_begin(generator_iterator<generator<int> > *out, generator<int> *g) { new(out) generator_iterator<generator<int> >(g->begin()); }
void drv_gen_end(generator_iterator<generator<int> > *out, generator<int> *g) { new(out) generator_iterator<generator<int> >(g->end()); }
void drv_arg_call_lvalue(future<int> *out, generator<int, int> *g, int *x) { new(out) future<int>((*g)(*x)); }
}

// =====================================================================================================================================
// appended after the audit of group E (items W1, W2).
//  W1: after the body's exception the consumer GOES ON asking.  From the property: the observed sequence is the yielded values, the
//      exception at its position, and then the sequence is over - the generator must say so (done() / operator bool) and asking again
//      must give the end-of-sequence indication of the style used, as after a regular end.
//  W2: the co_await styles (3: co_await next(), 4: co_await of the future returned by the call) as single steps, so that they can be
//      mixed with the synchronous styles and meet a throwing body.
extern "C" {
int g_fin_done, g_fin_bool;        // generator::done() / operator bool sampled right after the body's exception surfaced (-1: never sampled)
int g_after_end, g_after_val;      // what asking again after the exception gave: end indications / values
int g_co_frames;                   // consumer coroutine frames created by co_await steps
}
enum { FK_COSTEP = 6 };
// one co_await step in a small coroutine of its own; a synchronous body lets it run to completion inline.
// *out: 1 = a value was observed, 0 = end of sequence; an exception goes to task::promise_type::unhandled_exception (recorded), *out untouched
extern "C" task co_step(generator<int> *g, int style, int *out) {
    if (style == 3) { if (co_await g->next()) { obs(g->value()); *out = 1; } else *out = 0; }
    else { future<int> f = (*g)(); if (co_await f.has_value()) { obs(*f); *out = 1; } else *out = 0; }
}
// one step in any of the five styles.  1: a value was observed, 0: end of sequence, -1: an exception reached the consumer (recorded)
static int xstep(generator<int> &g, int style) {
    int r = -1;
    if (style < 3) guarded([&] { r = step(g, style); });
    else { g_frame_kind = FK_COSTEP; g_co_frames++; co_step(&g, style, &r); }
    return r; }
extern "C" {
// W1: body throws after pos values; one style (0..4); the consumer reads up to the exception, samples done() / operator bool, asks twice more
int drive_after_exception(int pos, int a, int b, int c, int e, int style) {
    g_fin_done = g_fin_bool = -1;
    g_frame_kind = FK_THROW; auto g = gen_throw(pos, a, b, c, e);
    int r = 1;
    for (int n = 0; n < 5 && r == 1; n++) r = xstep(g, style);          // the values, then the exception (r == -1)
    if (r == 0) g_end++;                                                  // (a regular end instead of the exception)
    g_fin_done = g.done() ? 1 : 0; g_fin_bool = g ? 1 : 0;
    for (int i = 0; i < 2; i++) { r = xstep(g, style); if (r == 1) g_after_val++; else if (r == 0) g_after_end++; }
    return 1; }
// W2: every sequence of 4 steps over all FIVE styles, regular body
int drive_mixed5(int k, int a, int b, int c, int s0, int s1, int s2, int s3) {
    g_frame_kind = FK_VALS; auto g = gen_vals(k, a, b, c);
    int r = xstep(g, s0); if (r == 1) r = xstep(g, s1); if (r == 1) r = xstep(g, s2); if (r == 1) r = xstep(g, s3);
    if (r == 0) g_end++; else g_end += 100;
    return 1; }
// W2: throwing body, every step in a style of its own (five styles): values, then the exception exactly at its position
int drive_throw_mixed(int pos, int a, int b, int c, int e, int s0, int s1, int s2, int s3) {
    g_frame_kind = FK_THROW; auto g = gen_throw(pos, a, b, c, e);
    int r = xstep(g, s0); if (r == 1) r = xstep(g, s1); if (r == 1) r = xstep(g, s2); if (r == 1) r = xstep(g, s3);
    if (r == 0) g_end++; else if (r == 1) g_end += 100;
    g_fin_done = g.done() ? 1 : 0; g_fin_bool = g ? 1 : 0;
    return 1; }
}

// instantiation of the rvalue-argument overloads (next(Arg&&), operator()(Arg&&)): stepping with a temporary argument (C20: no allocation; seed C20-4)
extern "C" int drv_inst_rvalue_arg(int k, int x) {
    g_frame_kind = FK_ARG; auto g = gen_arg(k, 1, 2, 3); int n = 0;
    if (g.next(int(x))) n++;
    return n; }
