// driver TU for C14: generator_aggregator<int, Arg> - helper members for the contract units (instantiated by use) and, for the bounded
// drive of the really lowered aggregator coroutine (DESIGN 3.8), scripted synchronous sources + consumer scenarios.  Real C++ against
// the real headers; everything observable goes through plain globals that the C harness (specs/C14/h_drive.c) reads.
#include <cocls/generator_aggregator.h>
using namespace cocls;

extern "C" {
int g_obs[8]; int g_nobs;            // values the consumer of the aggregate observed, in order
int g_end;                            // end-of-sequence indications observed
int g_exc_n, g_exc_at, g_exc_val;     // exceptions reported to the consumer: count, position (= values observed before), payload
int g_nmv, g_other_exc;
int g_ctor, g_dtor;                   // RAII locals inside the source bodies
int g_arg_src[12], g_arg_val[12]; int g_nargs;    // (source id, argument) for every activation of a source with argument, in order
int g_frame_kind;                     // announces the frame type of the next operator new (lib/model_heap_frames.c)
}
struct Guard { Guard() { g_ctor++; } Guard(const Guard &) = delete; ~Guard() { g_dtor++; } };
static void obs(int v) { if (g_nobs < 8) g_obs[g_nobs] = v; g_nobs++; }
static void arg(int id, int v) { if (g_nargs < 12) { g_arg_src[g_nargs] = id; g_arg_val[g_nargs] = v; } g_nargs++; }
enum { FK_SRC = 1, FK_SRC_THROW = 2, FK_SRC_ARG = 3, FK_AGGR = 4, FK_AGGR_ARG = 5 };

extern "C" {
// ---- scripted synchronous sources: k <= 2 values; a throwing one throws e after pos <= 2 values
generator<int> src_vals(int k, int a, int b) { Guard g; if (k > 0) co_yield a; if (k > 1) co_yield b; }
generator<int> src_throw(int pos, int a, int b, int e) { Guard g; if (pos == 0) throw e; co_yield a; if (pos == 1) throw e; co_yield b; throw e; }
generator<int, int> src_arg(int id, int k, int a, int b) { Guard g; int x = co_yield nullptr; arg(id, x); if (k > 0) { x = co_yield a; arg(id, x); } if (k > 1) { x = co_yield b; arg(id, x); } }
}
template<typename Fn> static void guarded(Fn &&fn) {
    try { fn(); }
    catch (int e) { g_exc_n++; g_exc_at = g_nobs; g_exc_val = e; }
    catch (const no_more_values_exception &) { g_nmv++; }
    catch (...) { g_other_exc++; }
}
static generator<int> make_src(int kind, int k, int a, int b, int e) {
    if (kind == 1) { g_frame_kind = FK_SRC_THROW; return src_throw(k, a, b, e); }
    g_frame_kind = FK_SRC; return src_vals(k, a, b);
}
static generator<int> make_aggr(int n, const int *kind, const int *k, const int *a, const int *b, int e) {
    std::vector<generator<int> > v;
    for (int i = 0; i < n; i++) v.emplace_back(make_src(kind[i], k[i], a[i], b[i], e));
    g_frame_kind = FK_AGGR;
    return generator_aggregator<int, void>(std::move(v));
}

extern "C" {
// n <= 3 sources (kind 0: k values, kind 1: throws e after k values); consumer style 0: next()/value(), 1: call-to-future;
// `stop` < 0: read to the end, otherwise destroy the aggregate after `stop` values (parked at a yield / never started)
int drive_aggr(int n, int style, int stop, int kind0, int k0, int a0, int b0, int kind1, int k1, int a1, int b1, int kind2, int k2, int a2, int b2, int e) {
    int kind[3] = {kind0, kind1, kind2}, k[3] = {k0, k1, k2}, a[3] = {a0, a1, a2}, b[3] = {b0, b1, b2};
    {
        auto g = make_aggr(n, kind, k, a, b, e);
        guarded([&] {
            for (int i = 0; stop < 0 || i < stop; i++) {
                if (style == 0) { if (!g.next()) { g_end++; break; } obs(g.value()); }
                else { future<int> f = g(); if (!f.has_value()) { g_end++; break; } obs(*f); }
            }
        });
    }
    return 1; }
// aggregate of sources with argument: call j passes x[j]
int drive_aggr_arg(int n, int style, int k0, int a0, int b0, int k1, int a1, int b1, int x0, int x1, int x2, int x3, int x4) {
    int k[2] = {k0, k1}, a[2] = {a0, a1}, b[2] = {b0, b1}, x[5] = {x0, x1, x2, x3, x4};
    {
        std::vector<generator<int, int> > v;
        for (int i = 0; i < n; i++) { g_frame_kind = FK_SRC_ARG; v.emplace_back(src_arg(i, k[i], a[i], b[i])); }
        g_frame_kind = FK_AGGR_ARG;
        auto g = generator_aggregator<int, int>(std::move(v));
        guarded([&] {
            for (int j = 0; j < 5; j++) {
                if (style == 0) { if (!g.next(x[j])) { g_end++; break; } obs(g.value()); }
                else { future<int> f = g(x[j]); if (!f.has_value()) { g_end++; break; } obs(*f); }
            }
        });
    }
    return 1; }

// ---- members for the contract units
using Q = _details::GenAggrQueue<int, void>;
using CB = _details::GenCallback<int, void>;
using CTL = _details::generator_aggregator_controller<int, void>;
void drv_cb_ctor(CB *out, Q *q, generator<int> *g) { new(out) CB(*q, std::move(*g)); }
void drv_cb_charge(CB *cb) { cb->charge(); }
void drv_ctl_dtor(CTL *c) { c->~CTL(); }
}
// the counter's "one source ended" step, tolerant of a renamed member (a refactoring that renames it must leave the drives decidable: only the helper unit
// `ctl_fin` then goes undecided - seeded change C14-3)
template<typename C> static auto c14_call_fin(C *c, int) -> decltype(c->fin(), void()) { c->fin(); }
template<typename C> static void c14_call_fin(C *, long) {}
extern "C" {
void drv_ctl_fin(CTL *c) { c14_call_fin(c, 0); }
bool drv_ctl_bool(CTL *c) { return (bool)*c; }
using CBA = _details::GenCallback<int, int>;
void drv_cba_charge(CBA *cb, int *x) { cb->charge(*x); }
}

// =====================================================================================================================================
// appended after the audit of group E (items D4, W1, W6).
//  D4: SEVERAL throwing sources, every one with a payload of its own; the consumer GOES ON after an exception, every reported exception is
//      recorded (payload, position), so that "a source's exception ... is reported to the consumer" can be checked per source.
//  W1: after the aggregate's exception the consumer asks again: the sequence is over, the end indication must follow (C13 clause).
//  W6: a source that the consumer had already stepped before handing it to the aggregator (`pre`).
extern "C" {
int g_xexc_val[4], g_xexc_at[4];      // every int exception reported to the consumer, in order: payload, position (count: g_exc_n)
int g_fin_done, g_fin_bool;           // aggregate.done() / operator bool sampled after the last thing the consumer got (-1: never sampled)
int g_pre_val, g_pre_ok;              // value taken from source 0 before it was handed to the aggregator
int g_again;                          // what asking once more after the end indication gave (xstep code; 9: not asked)
}
// 1: a value was observed, 0: end of sequence, -1: a source's exception reached the consumer (recorded), -2: no_more_values_exception
static int xstep(generator<int> &g, int style) {
    int r = -3;
    try {
        if (style == 0) { if (!g.next()) r = 0; else { obs(g.value()); r = 1; } }
        else { future<int> f = g(); if (!f.has_value()) r = 0; else { obs(*f); r = 1; } }
    }
    catch (int e) { if (g_exc_n < 4) { g_xexc_val[g_exc_n] = e; g_xexc_at[g_exc_n] = g_nobs; } g_exc_n++; g_exc_at = g_nobs; g_exc_val = e; r = -1; }
    catch (const no_more_values_exception &) { g_nmv++; r = -2; }
    catch (...) { g_other_exc++; r = -3; }
    return r; }
extern "C" {
// n <= 3 sources, source i of kind_i (0: k_i values then end, 1: k_i values then throws e_i); style 0 next()/value(), 1 call-to-future;
// pre = 1: the consumer takes the first value of source 0 itself before building the aggregate; the consumer goes on after every
// exception and stops at the end indication / at no_more_values_exception / after `steps` steps; then it samples done() and, after an end indication, asks once more
int drive_aggr_t(int n, int style, int pre, int steps, int kind0, int k0, int a0, int b0, int e0, int kind1, int k1, int a1, int b1, int e1, int kind2, int k2, int a2, int b2, int e2) {
    int kind[3] = {kind0, kind1, kind2}, k[3] = {k0, k1, k2}, a[3] = {a0, a1, a2}, b[3] = {b0, b1, b2}, e[3] = {e0, e1, e2};
    g_fin_done = g_fin_bool = -1; g_again = 9; g_pre_ok = 0;
    {
        std::vector<generator<int> > v;
        for (int i = 0; i < n; i++) {
            v.emplace_back(make_src(kind[i], k[i], a[i], b[i], e[i]));
            if (i == 0 && pre) { generator<int> &s = *v.begin(); if (s.next()) { g_pre_val = s.value(); g_pre_ok = 1; } }
        }
        g_frame_kind = FK_AGGR;
        auto g = generator_aggregator<int, void>(std::move(v));
        int r = 1;
        for (int i = 0; i < steps && (r == 1 || r == -1); i++) r = xstep(g, style);
        if (r == 0) g_end++;
        g_fin_done = g.done() ? 1 : 0; g_fin_bool = g ? 1 : 0;
        if (r == 0) g_again = xstep(g, style);                            // asking once more after the end indication
    }
    return 1; }
}
