// driver TU for C15: cocls::signal<int> / signal<void> (src/cocls/signal.h), instantiated by use.
// Compiled with -fno-access-control (signal<T>::state is a private nested struct).
// The user callbacks (connect) and the registration function (hook_up) are functors whose call operators are only DECLARED:
// they are the environment and get abstract (recording) bodies in specs/C15.
#include <cocls/signal.h>
using namespace cocls;
using SIG = signal<int>;
using SIGV = signal<void>;
struct c15_cb  { bool operator()(int &v); int tag; };          // callback listener of signal<int>
struct c15_cbv { bool operator()(); int tag; };                // callback listener of signal<void>
struct c15_reg { void operator()(SIG::collector c); int tag; };   // hook_up registration function
using HUE = SIG::hook_up_emitter<c15_reg>;
extern "C" {
// ---- signal<int>
void drv_sig_ctor(SIG *out) { new(out) SIG(); }
void drv_sig_dtor(SIG *s) { s->~SIG(); }
void drv_get_emitter(SIG::emitter *out, const SIG *s) { new(out) SIG::emitter(s->get_emitter()); }
void drv_get_collector(SIG::collector *out, const SIG *s) { new(out) SIG::collector(s->get_collector()); }
void drv_collector_dtor(SIG::collector *c) { c->~collector(); }
void drv_collector_to_signal(SIG *out, SIG::collector *c) { new(out) SIG(*c); }
void drv_emitter_dtor(SIG::emitter *e) { e->~emitter(); }
void drv_emitter_copy(SIG::emitter *out, const SIG::emitter *e) { new(out) SIG::emitter(*e); }
void drv_emitter_default(SIG::emitter *out) { new(out) SIG::emitter(); }
void drv_collect_rvalue(suspend_point<void> *out, const SIG::collector *c, int v) { new(out) suspend_point<void>((*c)(std::move(v))); }
void drv_collect_lvalue(suspend_point<void> *out, const SIG::collector *c, int *v) { new(out) suspend_point<void>((*c)(*v)); }
void drv_collect_value(suspend_point<void> *out, const SIG::collector *c, const int *v) { new(out) suspend_point<void>((*c)(*v)); }
bool drv_em_ready(SIG::emitter *e) { return e->await_ready(); }
bool drv_em_suspend(SIG::emitter *e, std::coroutine_handle<> h) { return e->await_suspend(h); }
int *drv_em_resume(SIG::emitter *e) { return &e->await_resume(); }
void drv_connect(SIG *s, c15_cb *cb) { s->connect(std::move(*cb)); }
void drv_hook_up(HUE *out, c15_reg *r) { new(out) HUE(SIG::hook_up(std::move(*r))); }
bool drv_hue_suspend(HUE *e, std::coroutine_handle<> h) { return e->await_suspend(h); }
// ---- signal<void>
void drv_v_sig_ctor(SIGV *out) { new(out) SIGV(); }
void drv_v_sig_dtor(SIGV *s) { s->~SIGV(); }
void drv_v_get_emitter(SIGV::emitter *out, const SIGV *s) { new(out) SIGV::emitter(s->get_emitter()); }
void drv_v_get_collector(SIGV::collector *out, const SIGV *s) { new(out) SIGV::collector(s->get_collector()); }
void drv_v_collect(suspend_point<void> *out, const SIGV::collector *c) { new(out) suspend_point<void>((*c)()); }
bool drv_v_em_suspend(SIGV::emitter *e, std::coroutine_handle<> h) { return e->await_suspend(h); }
void drv_v_em_resume(SIGV::emitter *e) { e->await_resume(); }
void drv_v_connect(SIGV *s, c15_cbv *cb) { s->connect(std::move(*cb)); }
}
