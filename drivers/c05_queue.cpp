// driver TU for C05 (+ the queue-related members of suspend_point for C06): instantiation by use.
#include <cocls/suspend_point.h>
#include <new>
using namespace cocls;
extern "C" {
bool drv_is_active() { return coro_queue::is_active(); }
void drv_resume(std::coroutine_handle<> h) { coro_queue::resume(h); }
void drv_install_resume(std::coroutine_handle<> h) { coro_queue::install_queue_and_resume(h); }
void *drv_swap(std::coroutine_handle<> h) { return coro_queue::swap_coroutine(h).address(); }
void *drv_next() { return coro_queue::resume_handle_next().address(); }
bool drv_can_block() { return coro_queue::can_block(); }
bool drv_ia_ready() { return coro_queue::initial_awaiter::await_ready(); }
void drv_ia_suspend(std::coroutine_handle<> h) { coro_queue::initial_awaiter::await_suspend(h); }
void *drv_pause(std::coroutine_handle<> h) { cocls::pause p; return p.await_suspend(h).address(); }
void drv_flush() { coro_queue::queue_impl::instance.flush_queue(); }
void drv_push(std::coroutine_handle<> h) { coro_queue::queue_impl::instance.push(h); }
void drv_suspend_now(suspend_point<void> *a) { a->suspend_now(); }
void drv_clear(suspend_point<void> *a) { a->clear(); }
void drv_dtor(suspend_point<void> *a) { a->~suspend_point<void>(); }
void *drv_await_suspend(suspend_point<void> *a, std::coroutine_handle<> h) { return a->await_suspend(h).address(); }
/* coro_queue::create_suspend_point(Fn&&) for a void-returning and an int-returning functor; the functor bodies are the environment
 * (external C functions supplied by the spec: they make coroutines ready = append to the thread's ready queue) */
void c05_fn_void(void *ctx);
int c05_fn_int(void *ctx);
struct c05_FnV { void *ctx; void operator()() const { c05_fn_void(ctx); } };
struct c05_FnI { void *ctx; int operator()() const { return c05_fn_int(ctx); } };
void drv_csp_void(suspend_point<void> *out, void *ctx) { new (out) suspend_point<void>(coro_queue::create_suspend_point(c05_FnV{ctx})); }
void drv_csp_int(suspend_point<int> *out, void *ctx) { new (out) suspend_point<int>(coro_queue::create_suspend_point(c05_FnI{ctx})); }
}
