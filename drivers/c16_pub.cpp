// driver TU for C16: instantiates (by use) publisher<int>::queue, publisher<int> and subscriber<int>.
// Compiled by clang -O0; private/protected members are reached through a friend-free trick: derived accessor classes.
#include <cocls/publisher.h>
using namespace cocls;
using Pub = publisher<int>;
using Sub = subscriber<int>;
using Q = Pub::queue;
// queue's `_lk` members are protected: a derived class re-exports them (no code of its own besides forwarding)
struct QX : Q {
    using Q::subscribe_lk; using Q::leave_lk; using Q::advance_lk; using Q::advance_suspend_lk; using Q::get_value_lk;
    using Q::push_lk; using Q::kick_lk;
};
// subscriber's protocol steps are protected
struct SX : Sub {
    using Sub::ready; using Sub::subscribe; using Sub::check_next;
};
// the registration-by-copy overload through a tolerant helper: a refactoring that removes it must leave the other units decidable (seeded change C16-7)
template<typename Q, typename S> static std::size_t c16_subscribe_copy(Q *q, std::size_t h, const S *s) {
    if constexpr (requires { q->subscribe(h, s); }) return q->subscribe(h, s); else return (std::size_t)-1; }
template<typename Q, typename S> static std::size_t c16_subscribe_lk_copy(Q *q, std::size_t h, const S *s) {
    if constexpr (requires { q->subscribe_lk(h, s); }) return q->subscribe_lk(h, s); else return (std::size_t)-1; }
extern "C" {
// ---- queue: the functions executed under the lock
std::size_t drv_subscribe_lk_pos(QX *q, const Sub *s, std::size_t pos) { return q->subscribe_lk(s, pos); }
std::size_t drv_subscribe_lk_recent(QX *q, const Sub *s) { return q->subscribe_lk(s); }
std::size_t drv_subscribe_lk_copy(QX *q, std::size_t h, const Sub *s) { return c16_subscribe_lk_copy(q, h, s); }
void drv_leave_lk(QX *q, std::size_t h) { q->leave_lk(h); }
bool drv_advance_lk(QX *q, std::size_t h, subscribtion_type t) { return q->advance_lk(h, t); }
bool drv_advance_suspend_lk(QX *q, std::size_t h, awaiter *a) { return q->advance_suspend_lk(h, a); }
void drv_get_value_lk(QX *q, std::optional<int> *out, std::size_t h, subscribtion_type t) { *out = q->get_value_lk(h, t); }
void drv_push_lk(QX *q, std::unique_lock<std::mutex> *lk, std::size_t n) { q->push_lk(*lk, n); }
void drv_kick_lk(QX *q, const Sub *s, std::unique_lock<std::mutex> *lk) { q->kick_lk(s, *lk); }
// ---- queue: locked wrappers
std::size_t drv_q_subscribe_pos(Q *q, const Sub *s, std::size_t pos) { return q->subscribe(s, pos); }
std::size_t drv_q_subscribe_recent(Q *q, const Sub *s) { return q->subscribe(s); }
std::size_t drv_q_subscribe_copy(Q *q, std::size_t h, const Sub *s) { return c16_subscribe_copy(q, h, s); }
bool drv_q_advance(Q *q, std::size_t h, subscribtion_type t) { return q->advance(h, t); }
bool drv_q_advance_suspend(Q *q, std::size_t h, awaiter *a) { return q->advance_suspend(h, a); }
void drv_q_leave(Q *q, std::size_t h) { q->leave(h); }
std::size_t drv_q_position(Q *q, std::size_t h) { return q->position(h); }
void drv_q_get_value(Q *q, std::optional<int> *out, std::size_t h, subscribtion_type t) { *out = q->get_value(h, t); }
void drv_q_push_move(Q *q, int *v) { q->push(std::move(*v)); }
void drv_q_push_copy(Q *q, const int *v) { q->push(*v); }
void drv_q_push_range(Q *q, const int *b, const int *e) { q->push(b, e); }
void drv_q_close(Q *q) { q->close(); }
void drv_q_kick(Q *q, const Sub *s) { q->kick(s); }
void drv_q_ctor(Q *q) { new(q) Q(); }
void drv_q_ctor_mm(Q *q, std::size_t mx, std::size_t mn) { new(q) Q(mx, mn); }
// ---- publisher
void drv_pub_publish_move(Pub *p, int *v) { p->publish(std::move(*v)); }
void drv_pub_publish_copy(Pub *p, const int *v) { p->publish(*v); }
void drv_pub_publish_range(Pub *p, const int *b, const int *e) { p->publish(b, e); }
void drv_pub_close(Pub *p) { p->close(); }
void drv_pub_kick(Pub *p, const Sub *s) { p->kick(s); }
void drv_pub_dtor(Pub *p) { p->~Pub(); }
// ---- subscriber
void drv_sub_ctor(Sub *out, Pub *p, subscribtion_type t) { new(out) Sub(*p, t); }
void drv_sub_ctor_pos(Sub *out, Pub *p, std::size_t pos, subscribtion_type t) { new(out) Sub(*p, pos, t); }
void drv_sub_copy(Sub *out, const Sub *o) { new(out) Sub(*o); }
void drv_sub_dtor(Sub *s) { s->~Sub(); }
bool drv_sub_ready(SX *s) { return s->ready(); }
bool drv_sub_subscribe(SX *s, awaiter *a) { return s->subscribe(a); }
bool drv_sub_check_next(SX *s) { return s->check_next(); }
std::size_t drv_sub_position(const Sub *s) { return s->position(); }
bool drv_sub_next_ready(Sub *s) { return s->next_ready(); }
void drv_sub_kick_me(Sub *s) { s->kick_me(); }
int *drv_sub_value(Sub *s) { return &s->value(); }
// next_awt members
bool drv_awt_ready(Sub *s) { auto a = s->next(); return a.await_ready(); }
bool drv_awt_suspend(Sub::next_awt *a, std::coroutine_handle<> h) { return a->await_suspend(h); }
bool drv_awt_resume(Sub::next_awt *a) { return a->await_resume(); }
bool drv_awt_bool(Sub *s) { return (bool)s->next(); }
bool drv_awt_not(Sub *s) { return !s->next(); }
}
// ---- added (W2): publisher constructors, the queue's (implicit) destructor, iterator / range-for access of a subscriber
using It = Sub::iterator;
extern "C" void c16_sink(int *v);          // the body of a range-for loop: user code, declared only (abstract callee of the spec)
extern "C" {
void drv_pub_ctor(Pub *out) { new(out) Pub(); }
void drv_pub_ctor_mm(Pub *out, std::size_t mx, std::size_t mn) { new(out) Pub(mx, mn); }
void drv_q_dtor(Q *q) { q->~Q(); }
void drv_sub_begin(It *out, Sub *s) { new(out) It(s->begin()); }
void drv_sub_end(It *out, Sub *s) { new(out) It(s->end()); }
bool drv_it_eq(const It *a, const It *b) { return *a == *b; }
bool drv_it_ne(const It *a, const It *b) { return *a != *b; }
It *drv_it_inc(It *a) { return &++*a; }
int *drv_it_deref(const It *a) { return &**a; }
int *drv_it_arrow(const It *a) { return a->operator->(); }
}

// value carried by the result of a postfix ++ (generator_iterator::storage): read through the member, whatever representation a rewrite gives it
// (storage::operator* does not compile on the unchanged tree); keeps the driver compilable under such rewrites (seeded change C20-5)
template<typename S> static decltype(auto) cv_postfix_value(S &z) { if constexpr (requires { *z._v; }) return (*z._v); else return (z._v); }
extern "C" {
int drv_it_postinc(It *a) { auto z = (*a)++; return cv_postfix_value(z); }   // storage::operator*/-> do not compile (known: replay/c13_iterator_storage_compile.cpp)
void drv_sub_range_for(Sub *s) { for (int &v : *s) c16_sink(&v); }
}
