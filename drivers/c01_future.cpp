// driver TU for C01/C02/C03 (protocol F): future<T>/promise<T>/awaiter, instantiated by use.
#include <cocls/future.h>
using namespace cocls;
extern "C" {
// ---- promise<int>
void *drv_claim(promise<int> *p) { return p->claim(); }
void drv_set_value(suspend_point<bool> *out, promise<int> *p, int v) { new(out) suspend_point<bool>((*p)(v)); }
void drv_set_drop(suspend_point<bool> *out, promise<int> *p) { new(out) suspend_point<bool>((*p)(drop)); }
void drv_set_exc(suspend_point<bool> *out, promise<int> *p, std::exception_ptr *e) { new(out) suspend_point<bool>(p->set_exception(*e)); }
void drv_promise_dtor(promise<int> *p) { p->~promise<int>(); }
void drv_promise_move(promise<int> *out, promise<int> *src) { new(out) promise<int>(std::move(*src)); }
void drv_promise_move_assign(promise<int> *dst, promise<int> *src) { *dst = std::move(*src); }
bool drv_promise_bool(promise<int> *p) { return (bool)*p; }
// ---- promise<void>
void drv_set_void(suspend_point<bool> *out, promise<void> *p) { new(out) suspend_point<bool>((*p)()); }
void drv_pv_dtor(promise<void> *p) { p->~promise<void>(); }
// ---- future<int>
void drv_future_ctor(future<int> *f) { new(f) future<int>(); }
void drv_get_promise(promise<int> *out, future<int> *f) { new(out) promise<int>(f->get_promise()); }
bool drv_ready(future<int> *f) { return f->ready(); }
bool drv_pending(future<int> *f) { return f->pending(); }
bool drv_initialized(future<int> *f) { return f->initialized(); }
int drv_value(future<int> *f) { return f->value(); }
void drv_future_dtor(future<int> *f) { f->~future<int>(); }
bool drv_subscribe(future<int> *f, awaiter *a) { return f->subscribe(a); }
bool drv_has_value_resume(future<int> *f) { auto hv = f->has_value(); return hv.await_resume(); }
void drv_fv_value(future<void> *f) { f->value(); }
// ---- co_awaiter<future<int>>
bool drv_aw_ready(co_awaiter<future<int>> *a) { return a->await_ready(); }
bool drv_aw_suspend(co_awaiter<future<int>> *a, std::coroutine_handle<> h) { return a->await_suspend(h); }
bool drv_aw_suspend_fn(co_awaiter<future<int>> *a, awaiter::resume_fn fn, void *ctx) { return a->await_suspend(fn, ctx); }
int drv_aw_resume(co_awaiter<future<int>> *a) { return a->await_resume(); }
void drv_aw_sync(co_awaiter<future<int>> *a) { a->sync(); }
void drv_aw_force_sync(co_awaiter<future<int>> *a) { a->force_sync(); }
int drv_aw_wait(co_awaiter<future<int>> *a) { return a->wait(); }
// ---- awaiter
void drv_awaiter_resume(suspend_point<void> *out, awaiter *a) { new(out) suspend_point<void>(a->resume()); }
void drv_awaiter_subscribe(awaiter *a, awaiter_collector *c) { a->subscribe(*c); }
void drv_resume_chain(suspend_point<void> *out, awaiter_collector *c) { new(out) suspend_point<void>(awaiter::resume_chain(*c)); }
void drv_resume_chain_set_ready(suspend_point<void> *out, awaiter_collector *c, awaiter *r) { new(out) suspend_point<void>(awaiter::resume_chain_set_ready(*c, *r)); }
void drv_resume_chain_lk(suspend_point<void> *out, awaiter *c) { new(out) suspend_point<void>(awaiter::resume_chain_lk(c)); }
bool drv_subscribe_check_ready(awaiter *a, awaiter_collector *c, awaiter *r) { return a->subscribe_check_ready(*c, *r); }
void drv_sync_wakeup(sync_awaiter *a) { a->wakeup(); }
}
// has_value() waiters: awaitable_bool::await_ready / operator bool
extern "C" {
bool drv_ab_ready(future<int>::awaitable_bool *a) { return a->await_ready(); }
bool drv_ab_bool(const future<int>::awaitable_bool *a) { return (bool)*a; }
}
// ---- blocking styles of future<int> and co_awaiter<future<int>> (C02 forwarder units: specs/C02/w_spec.h)
extern "C" {
int drv_aw_force_wait(co_awaiter<future<int>> *a) { return a->force_wait(); }
int drv_fu_wait(future<int> *f) { return f->wait(); }
int drv_fu_force_wait(future<int> *f) { return f->force_wait(); }
void drv_fu_sync(const future<int> *f) { f->sync(); }
void drv_fu_force_sync(const future<int> *f) { f->force_sync(); }
}
