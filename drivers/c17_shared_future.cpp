// driver TU for C17: instantiates (by use) the members of shared_future<int> and the resolve tracer.
// The two "function" arguments of the constructors are functors whose call operators are only DECLARED here:
// they are the environment (user code) and are given abstract bodies in specs/C17.
#include <cocls/shared_future.h>
using namespace cocls;
struct c17_promise_fn { void operator()(promise<int> p) const; };   // user code that receives the promise
struct c17_future_fn  { future<int> operator()() const; };          // user code that returns a future<int>
using SF = shared_future<int>;
// a non-coroutine awaiter that counts how often it is resumed (bounded drive: "every awaiter is resumed exactly once")
struct c17_counting_awaiter : awaiter {
    int hits = 0;
    c17_counting_awaiter() {
        set_resume_fn([](awaiter *a, void *) noexcept -> suspend_point<void> { ++static_cast<c17_counting_awaiter *>(a)->hits; return {}; });
    }
};
extern "C" {
void drv_default(SF *out) { new(out) SF(); }
void drv_ctor_promise(SF *out, c17_promise_fn *fn) { new(out) SF(*fn); }
void drv_ctor_future(SF *out, c17_future_fn *fn) { new(out) SF(*fn); }
void drv_init_if_needed(SF *a) { a->init_if_needed(); }
void drv_get_promise(SF *a, promise<int> *out) { new(out) promise<int>(a->get_promise()); }
bool drv_ready(const SF *a) { return a->ready(); }
int *drv_value(SF *a) { return &a->value(); }
int *drv_wait(SF *a) { return &a->wait(); }
void drv_co_await(SF *a, co_awaiter<future<int> > *out) { new(out) co_awaiter<future<int> >(a->operator co_await()); }
void drv_copy_ctor(SF *out, const SF *src) { new(out) SF(*src); }
void drv_copy_assign(SF *a, const SF *src) { *a = *src; }
void drv_dtor(SF *a) { a->~SF(); }
// resolution through the real promise (used by the bounded drive)
bool drv_resolve(promise<int> *p, int v) { return (*p)(v); }
void drv_drop_promise(promise<int> *p) { p->~promise<int>(); }
bool drv_subscribe(SF *a, c17_counting_awaiter *awt) { return a->operator co_await().subscribe(awt); }
void drv_awaiter_init(c17_counting_awaiter *a) { new(a) c17_counting_awaiter(); }
void drv_promise_move(promise<int> *dst, promise<int> *src) { new(dst) promise<int>(std::move(*src)); }
}
// ---- added after the audit (group E, D1/D2/W3): operator<< ("same as result_of") on a shared_future, resolution with an exception
extern "C" {
void drv_shift(SF *a, c17_future_fn *fn) { *a << *fn; }
bool drv_resolve_exc(promise<int> *p, std::exception_ptr *e) { return (*p)(*e); }
}
// environment helper of the operator<< drive: "the user function starts an operation and keeps its promise" (real future<int>() + get_promise())
extern "C" void drv_future_pending(future<int> *out, promise<int> *keep) { new(out) future<int>(); new(keep) promise<int>(out->get_promise()); }
// ---- added (W2): the remaining blocking forwarders, the static factories and the conversion to the underlying future
extern "C" {
void drv_sync(SF *a) { a->sync(); }
void drv_force_sync(SF *a) { a->force_sync(); }
int *drv_force_wait(SF *a) { return &a->force_wait(); }
void drv_join(SF *a) { a->join(); }
void drv_set_exception(SF *out, std::exception_ptr *e) { new(out) SF(SF::set_exception(std::move(*e))); }
void drv_set_value(SF *out, int v) { new(out) SF(SF::set_value(v)); }
future<int> *drv_as_future(SF *a) { return &static_cast<future<int> &>(*a); }
}
