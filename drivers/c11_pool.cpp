// driver TU for C11 (thread pool): instantiates (by use) every member of cocls::thread_pool the property speaks about, the
// closure types it hands to its queue, and the cocls::function<void()> machinery that owns those closures.
// Protected members are reached through a derived accessor struct (using-declarations only, no new code).
#include <cocls/thread_pool.h>
using namespace cocls;

// observable user work: plain-C hooks (emitted by ir2c as cvx_c11_*; the units supply recording bodies)
extern "C" void c11_job_run(long id);          // body of a run_detached() job
extern "C" int c11_job_compute(long id);       // body of a run() job (may "throw": the stub raises cv_exc_pending)
struct Job { long id; void operator()() { c11_job_run(id); } };
struct IntJob { long id; int operator()() { return c11_job_compute(id); } };

// instrumented callables for the function<void()> machinery itself: every construction / move / destruction / call is observable
// (small: lives in function<>'s internal storage; big: 80 bytes of payload, lives on the heap)
extern "C" void c11_t_ctor(void *at, long id);
extern "C" void c11_t_move(void *to, void *from, long id);
extern "C" void c11_t_dtor(void *at, long id);
extern "C" void c11_t_call(void *at, long id);
template<int PAD> struct TJobT {
    long id; char pad[PAD];
    explicit TJobT(long i) : id(i) { c11_t_ctor(this, i); }
    TJobT(TJobT &&o) : id(o.id) { o.id = 0; c11_t_move(this, &o, id); }      // the identity travels with the move
    TJobT(const TJobT &) = delete;
    ~TJobT() { c11_t_dtor(this, id); }
    void operator()() { c11_t_call(this, id); }
};
using TJob = TJobT<8>;
using BigJob = TJobT<80>;

struct tp_access : public thread_pool {
    using thread_pool::enqueue;
    using thread_pool::_mx; using thread_pool::_cond; using thread_pool::_queue; using thread_pool::_threads; using thread_pool::_exit;
    using thread_pool::_current;
};
using q_item = thread_pool::q_item;
using co_aw = thread_pool::co_awaiter;
using cur_aw = thread_pool::current::current_awaiter;

async<int> c11_coro(int x) { co_return x + 1; }

extern "C" {
// ---- pool life cycle
void drv_ctor(thread_pool *out, unsigned n) { new(out) thread_pool(n); }
void drv_dtor(thread_pool *p) { p->~thread_pool(); }
void drv_stop(thread_pool *p) { p->stop(); }
void drv_worker(thread_pool *p) { p->worker(); }
void drv_enqueue(tp_access *p, q_item *fn) { p->enqueue(std::move(*fn)); }
bool drv_is_stopped(const thread_pool *p) { return p->is_stopped(); }
bool drv_any_enqueued(thread_pool *p) { return p->any_enqueued(); }
bool drv_is_current(const thread_pool *p) { return is_current(*p); }
// ---- thread_pool::current
bool drv_cur_is_stopped() { return thread_pool::current::is_stopped(); }
bool drv_cur_any_enqueued() { return thread_pool::current::any_enqueued(); }
bool drv_cur_await_ready() { return cur_aw::await_ready(); }
void drv_cur_co_await(cur_aw *out) { thread_pool::current c; new(out) cur_aw(c.operator co_await()); }
// ---- co_await pool
void drv_co_await(co_aw *out, thread_pool *p) { new(out) co_aw(p->operator co_await()); }
bool drv_aw_ready(co_aw *a) { return a->await_ready(); }
void drv_aw_suspend(co_aw *a, std::coroutine_handle<> h) { a->await_suspend(h); }
void drv_aw_resume(co_aw *a) { a->await_resume(); }
// ---- submissions
void drv_run_detached(thread_pool *p, Job *j) { p->run_detached(*j); }
void drv_run_fn(future<int> *out, thread_pool *p, IntJob *j) { new(out) future<int>(p->run(*j)); }
void drv_run_async_ref(future<int> *out, thread_pool *p, async<int> *a) { new(out) future<int>(p->run(*a)); }
void drv_run_async_rv(future<int> *out, thread_pool *p, async<int> *a) { new(out) future<int>(p->run(std::move(*a))); }
void drv_resume_sp(thread_pool *p, suspend_point<void> *sp) { p->resume(*sp); }
void drv_resume_sp_rv(thread_pool *p, suspend_point<void> *sp) { p->resume(std::move(*sp)); }
bool drv_resume_spb(thread_pool *p, suspend_point<bool> *sp) { return p->resume(*sp); }
// ---- co_await pool(awaitable): enqueue_awaiter over a future<int>
int drv_pool_call(thread_pool *p, future<int> *f) { auto aw = (*p)(*f); return aw.await_ready() ? 1 : 0; }
bool drv_pool_call_suspend(thread_pool *p, future<int> *f, std::coroutine_handle<> h) { auto aw = (*p)(*f); return aw.await_suspend(h); }
int drv_pool_call_resume(thread_pool *p, future<int> *f) { auto aw = (*p)(*f); return aw.await_resume(); }
// ---- function<void()> machinery on its own (move / call / destroy / empty call)
void drv_fn_move(q_item *out, q_item *src) { new(out) q_item(std::move(*src)); }
void drv_fn_move_assign(q_item *a, q_item *b) { *a = std::move(*b); }
void drv_fn_call(q_item *f) { (*f)(); }
void drv_fn_dtor(q_item *f) { f->~q_item(); }
void drv_fn_from_job(q_item *out, Job *j) { new(out) q_item(*j); }
bool drv_fn_bool(q_item *f) { return (bool)*f; }
void drv_fn_default(q_item *out) { new(out) q_item(); }
void drv_fn_from_tjob(q_item *out, long id) { new(out) q_item(TJob(id)); }
void drv_fn_from_bigjob(q_item *out, long id) { new(out) q_item(BigJob(id)); }
void drv_run_detached_tjob(thread_pool *p, long id) { p->run_detached(TJob(id)); }
}
