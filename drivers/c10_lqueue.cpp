// driver TU for C10 (bounded queue): instantiates by use limited_queue<int> (ctor, push, pop incl. the future-constructor lambda, unblock_push, inherited size/empty, dtor).
// The extern "C" wrappers are also the roots of the history-lemma unit (specs/C10/units.py).
#include <cocls/queue.h>
using namespace cocls;
extern "C" {
void drv_lq_ctor(limited_queue<int> *q, std::size_t limit) { new(q) limited_queue<int>(limit); }
void drv_lq_dtor(limited_queue<int> *q) { q->~limited_queue<int>(); }
void drv_lq_push(future<void> *out, limited_queue<int> *q, int v) { new(out) future<void>(q->push(std::move(v))); }
void drv_lq_pop(future<int> *out, limited_queue<int> *q) { new(out) future<int>(q->pop()); }
void drv_lq_unblock_push(suspend_point<bool> *out, limited_queue<int> *q, std::exception_ptr *e) { new(out) suspend_point<bool>(q->unblock_push(*e)); }
std::size_t drv_lq_size(limited_queue<int> *q) { return q->size(); }
bool drv_lq_empty(limited_queue<int> *q) { return q->empty(); }
}
