// driver TU for C06 (parallel resumption): instantiates (by use) cocls::parallel<co_awaiter<future<int>>> (the awaiter built by
// `co_await cocls::parallel(fut)`) and cocls::parallel_resume(suspend_point<T>&&) for T = void and T = bool (src/cocls/resume.h).
#include <cocls/future.h>
#include <cocls/resume.h>
#include <type_traits>
using namespace cocls;
using PAR = parallel<co_awaiter<future<int> > >;
static_assert(std::is_same_v<decltype(parallel(std::declval<future<int> &>())), PAR>, "deduction guide: parallel(future<int>&) is parallel<co_awaiter<future<int>>>");
struct PARX : PAR { using PAR::perform_resume; };   // perform_resume is a protected static member
extern "C" {
void drv_par_ctor(PAR *out, future<int> *f) { new(out) PAR(*f); }
bool drv_par_await_ready(PAR *p) { return p->await_ready(); }
bool drv_par_await_suspend(PAR *p, std::coroutine_handle<> h) { return p->await_suspend(h); }
int *drv_par_await_resume(PAR *p) { return &p->await_resume(); }
void drv_par_perform_resume(suspend_point<void> *out, awaiter *a, void *ctx) { new(out) suspend_point<void>(PARX::perform_resume(a, ctx)); }
void drv_parallel_resume_void(suspend_point<void> *sp) { parallel_resume(std::move(*sp)); }
bool drv_parallel_resume_bool(suspend_point<bool> *sp) { return parallel_resume(std::move(*sp)); }
}
