// C01 finding "pwd-self-move": promise_with_default<T>::operator=(promise_with_default &&other) moves the right to resolve from `other`
// into *this (promise<T>::operator=) but then executes `def = std::move(def);` - a self-move - instead of `def = std::move(other.def);`.
// After `a = std::move(b)` the object a owns b's future together with a's OLD default value: when a is destroyed unresolved, the future
// that was paired with the default of b receives the default of a.
// C01: "the future's result (value, exception or no-value) is exactly the winner's payload"; class documentation (future.h):
// "Promise with default value - If the promise is destroyed unresolved, the default value is set to the future".  The default value given
// when the promise_with_default for THIS future was made is the payload of the implicit resolution.
//
// Build:  g++ -std=c++20 -DNDEBUG -I/repo/src c01_pwd_move_assign.cpp -o t && ./t [assign|ctor|vector] [in_da=111] [in_db=222]
//   assign : a(fa, da), b(fb, db); a = std::move(b); a destroyed  -> fb must hold db, fa must be resolved (no hang)
//   ctor   : control - the (defaulted) move constructor: c(std::move(b)); c destroyed -> fb must hold db
//   vector : the everyday shape of the same thing - a slot of a container is re-used: slots[0] = std::move(fresh)
// exit code 0 = fb received b's default; 1 = fb received something else (a's default); 2 = fb not resolved at all.
#include <cocls/future.h>
#include <cstdio>
#include <cstdlib>
#include <cstring>
#include <vector>
using namespace cocls;

static int check(const char *what, future<int> &fb, int da, int db) {
    if (fb.pending()) { std::printf("%s: b's future is still pending after its owner was destroyed\n", what); return 2; }
    int got;
    try { got = fb.value(); }
    catch (const await_canceled_exception &) { std::printf("%s: b's future resolved to no-value instead of the default %d\n", what, db); return 1; }
    std::printf("%s: default of a = %d, default of b = %d, b's future received %d\n", what, da, db, got);
    if (got != db) { std::printf("WRONG PAYLOAD: the future paired with default %d received %d\n", db, got); return 1; }
    return 0;
}

int main(int argc, char **argv) {
    const char *mode = argc > 1 ? argv[1] : "assign";
    int da = 111, db = 222;
    for (int i = 2; i < argc; ++i) {
        if (!std::strncmp(argv[i], "in_da=", 6)) da = (int)std::strtoll(argv[i] + 6, nullptr, 10);
        if (!std::strncmp(argv[i], "in_db=", 6)) db = (int)std::strtoll(argv[i] + 6, nullptr, 10);
    }
    future<int> fa, fb;
    int rc = 0;
    if (!std::strcmp(mode, "assign")) {
        {
            promise_with_default<int> a(fa.get_promise(), da);
            promise_with_default<int> b(fb.get_promise(), db);
            a = std::move(b);                 // a's old future fa is resolved at once; a now owns fb ... and which default?
            if (fa.pending()) { std::puts("assign: the overwritten promise left its future pending"); rc = 2; }
            if (fb.ready()) { std::puts("assign: b's future was resolved by the assignment itself"); rc = 2; }
        }                                     // a destroyed unresolved -> fb gets "the default value"
        if (!rc) rc = check("assign", fb, da, db);
    } else if (!std::strcmp(mode, "ctor")) {
        {
            promise_with_default<int> b(fb.get_promise(), db);
            promise_with_default<int> c(std::move(b));
        }
        rc = check("ctor", fb, da, db);
        promise<int> drop_a = fa.get_promise();
    } else if (!std::strcmp(mode, "vector")) {
        {
            std::vector<promise_with_default<int>> slots;
            slots.emplace_back(fa.get_promise(), da);
            promise_with_default<int> fresh(fb.get_promise(), db);
            slots[0] = std::move(fresh);      // re-use the slot
        }
        rc = check("vector", fb, da, db);
    } else {
        std::fprintf(stderr, "unknown mode %s\n", mode);
        return 64;
    }
    return rc;
}
