// C11 - native reproduction: thread_pool::stop() joins the workers BEFORE it cancels the closures it swapped out of the queue.
//   g++ -std=c++20 -O1 -I/repo/src -pthread -g c11_join_before_cancel.cpp -o c11_join_before_cancel && ./c11_join_before_cancel
// Property C11: a submission that cannot run because the pool is stopped "is cancelled observably exactly once (... the returned future reports
// a broken promise); it is ... never forgotten with a waiter left hanging.  stop() and the destructor terminate and join all workers without
// deadlock for every timing".
// stop():  { lock; _exit = true; notify_all; swap(tmp,_threads); swap(q,_queue); }  for (t : tmp) t.join();   } <- q (= the cancellations) dies HERE
// A job that runs on a worker and waits for another submission of the same pool - `pool.run(g).wait()`, g still queued because every worker is
// busy - is released only by g's cancellation (broken promise).  stop() joins that worker first and would cancel g afterwards: the waiter hangs
// for ever and stop() never returns.  Without stop() the same program terminates (worker A picks g up as soon as its own job is done).
// Scenario (2 workers): A = busy job (holds its worker until main has entered stop(), +250 ms); B = submits g (queued: A and B are both busy)
// and waits for its future; main calls stop() once g is queued.  Checker obligation: C11-JOIN-ORDER in lib/model_tpool2.c (unit stop).
// Exit code: 0 = stop() returned and the waiter saw the cancellation (broken promise); 1 = stop() still blocked after 4 s (deadlock, waiter
// hanging); 2 = stop() returned but the waiter did not see a broken promise.  Never hangs (watchdog).
#include <cocls/thread_pool.h>
#include <atomic>
#include <chrono>
#include <cstdio>
#include <cstdlib>
#include <thread>
using namespace cocls;
using namespace std::chrono_literals;

static std::atomic<bool> g_a_running{false}, g_submitted{false}, g_stop_entered{false}, g_stop_returned{false};
static std::atomic<int> g_waiter_outcome{0};        // 0 = still waiting, 1 = got a value (g ran), 2 = exception (broken promise: g cancelled)
static std::atomic<int> g_ran{0};

int main(int, char **) {
    auto *pool = new thread_pool(2);
    pool->run_detached([]{                                             // worker A: busy until main is inside stop() (so that g stays queued)
        g_a_running = true;
        while (!g_stop_entered) std::this_thread::sleep_for(1ms);
        std::this_thread::sleep_for(250ms);                            // stop() has taken the lock and swapped the queue out long before this ends
    });
    while (!g_a_running) std::this_thread::sleep_for(1ms);
    pool->run_detached([pool]{                                         // worker B: a unit of work with a waiter
        future<int> f = pool->run([]{ g_ran++; return 42; });          // g: queued - both workers are busy
        g_submitted = true;
        try { int v = f.wait(); (void)v; g_waiter_outcome = 1; } catch (...) { g_waiter_outcome = 2; }
    });
    while (!g_submitted) std::this_thread::sleep_for(1ms);
    std::thread([]{ std::this_thread::sleep_for(4s);
        if (!g_stop_returned) {
            std::printf("stop() still blocked after 4 s; g ran=%d, waiter outcome=%d (0 = still hanging)\n", g_ran.load(), g_waiter_outcome.load());
            std::printf("RESULT: VIOLATION - stop() joins the worker whose job waits for a queued submission before it cancels that submission: deadlock, waiter left hanging\n");
            std::fflush(stdout); std::_Exit(1); } }).detach();
    g_stop_entered = true;
    pool->stop();                                                      // g must be cancelled -> broken promise -> B's job returns -> both joins succeed
    g_stop_returned = true;
    std::printf("stop() returned; g ran=%d, waiter outcome=%d (2 = broken promise)\n", g_ran.load(), g_waiter_outcome.load());
    bool ok = g_waiter_outcome == 2 && g_ran == 0;
    std::printf(ok ? "RESULT: the queued submission was cancelled before the workers were joined\n" : "RESULT: VIOLATION - the waiter did not observe the cancellation\n");
    std::fflush(stdout);
    delete pool;
    return ok ? 0 : 2;
}
