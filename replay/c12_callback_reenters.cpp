// C12 native replay: a completion callback that calls back into the scheduler self-deadlocks the scheduling thread
// (seed report "pre-existing defect 2"; obligation "a sleeper's promise is resolved outside _mx" of units worker_step / worker_step_pool).
//
// Property C12: "cancel(id) completes exactly one pending sleep carrying that id ... and reports true, and reports false with no other effect - in
// particular no crash or hang - when nothing pending carries that id", "sleepers complete in time-point order, each exactly once, and ... a sleeper is
// woken at its time point rather than later", for every history of schedule/sleep/cancel/remove calls in thread / thread-pool mode.
// scheduler::worker_coro resolves a due promise - x() / pool->resume(x()) - while it still holds _mx (scheduler.h:393-400).  The scheduler accepts any
// promise<void> (class comment: "the scheduling is not limited to coroutines, you can actually schedule anything"); a promise whose awaiter is a callback
// (make_promise, future_with_cb, callback_await ...) runs that callback synchronously inside x(), i.e. with _mx held.  A callback that calls
// cancel()/remove()/schedule()/sleep_*() of the same scheduler locks the non-recursive _mx again: the scheduling thread hangs holding the mutex, no
// sleeper is ever woken again and every other caller of the scheduler blocks.  Manual mode is unaffected (get_expired() hands the promise to the caller).
//
//   mode thread : scheduler in its own thread (start_thread()).      mode pool : scheduler in a thread_pool(2).
//   The timer callback (due at +20 ms) calls cancel(idNone) - nothing pending carries it: must report false - and cancel(idX) - must report true and
//   complete X with await_canceled_exception; an ordinary sleeper Y due at +60 ms must still be woken.   name=value arguments are ignored.
// exit 0 = callback returned with (false, true), X cancelled, Y woke (property holds); 1 = scheduler hung (violation); 2 = wrong results.
// build: g++ -std=c++20 -O1 -g -pthread -I/repo/src replay/c12_callback_reenters.cpp -o /tmp/c12_callback_reenters
#include <cocls/scheduler.h>
#include <atomic>
#include <chrono>
#include <cstdio>
#include <cstring>
#include <thread>
#include <unistd.h>
using namespace std::chrono;

int main(int argc, char **argv) {
    std::setvbuf(stdout, nullptr, _IONBF, 0);
    const char *mode = argc > 1 ? argv[1] : "thread";
    bool use_pool = !std::strcmp(mode, "pool");
    auto *pool = use_pool ? new cocls::thread_pool(2) : nullptr;     // objects are leaked on purpose: after a deadlock they cannot be destroyed,
    auto *sch = new cocls::scheduler;                                 // and a clean shutdown would only add the (separate) lost-stop defect
    if (use_pool) sch->start(*pool); else sch->start_thread();
    std::this_thread::sleep_for(milliseconds(50));

    char idX, idNone;
    std::atomic<int> stage{0};
    std::atomic<int> r_none{-1}, r_x{-1};
    cocls::future<void> fx = sch->sleep_until(system_clock::now() + hours(1), &idX);        // X: long sleep, cancelled by the timer callback
    cocls::future<void> fy = sch->sleep_until(system_clock::now() + milliseconds(60));      // Y: ordinary sleeper due a little later
    sch->schedule(nullptr, cocls::make_promise<void>([&](cocls::future<void> &) {            // the timer callback, due at +20 ms
        stage = 1;
        r_none = sch->cancel(&idNone) ? 1 : 0;
        stage = 2;
        r_x = sch->cancel(&idX) ? 1 : 0;
        stage = 3;
    }), system_clock::now() + milliseconds(20));

    auto t0 = steady_clock::now();
    while ((stage.load() != 3 || !fy.ready() || !fx.ready()) && steady_clock::now() - t0 < seconds(3)) std::this_thread::sleep_for(milliseconds(5));
    if (stage.load() != 3 || !fy.ready()) {
        std::printf("VIOLATION: after 3 s the timer callback is at stage %d (1 = stuck inside cancel(id) with nothing pending under id), X %s, Y (due at +60 ms) %s\n",
                    stage.load(), fx.ready() ? "completed" : "still pending", fy.ready() ? "woke" : "never woke");
        _exit(1);
    }
    bool x_cancelled = false;
    if (fx.ready()) { try { fx.value(); } catch (const cocls::await_canceled_exception &) { x_cancelled = true; } }
    std::printf("callback returned: cancel(idNone)=%d cancel(idX)=%d, X %s, Y woke\n", r_none.load(), r_x.load(), x_cancelled ? "cancelled" : "NOT cancelled");
    _exit(r_none.load() == 0 && r_x.load() == 1 && x_cancelled ? 0 : 2);
}
