// C12 native replay: lost stop request in the scheduler's worker (wait/notify handshake of worker_coro, audit item D3).
//
// Property C12: "... no crash or hang ...; sleeps still pending when the scheduler is destroyed are cancelled rather than left hanging", for every
// schedule "in single-thread start(awaitable) mode ... and in thread / thread-pool mode".
// scheduler::worker_coro tests state.stop_requested() under _mx (scheduler.h:390) and later blocks in _cond.wait_until(lk, x) (scheduler.h:404/408); the
// stop request is signalled by a std::stop_callback that calls _cond.notify_all() WITHOUT passing through _mx (scheduler.h:373-375), and the flag itself is
// not guarded by _mx.  A request that lands between the test and the wait is lost: the worker sleeps until the next deadline - for ever
// (time_point::max()) when nothing is scheduled.  Then ~scheduler() (thread / thread-pool mode) never returns, a still pending sleep is never cancelled,
// and start(awaitable) never returns although the awaitable was resolved (by another thread).
//
// The window is entered deterministically through the worker's OWN call of std::chrono::system_clock::now() (scheduler.h:391, made with _mx held, after
// the stop test): this program supplies that libstdc++ function (the executable's definition wins at link time); once, on the worker thread, it lets the
// other thread issue the stop request and waits 300 ms.  The library headers are untouched.
//
//   mode dtor  : scheduler started in its own thread (start(std::thread&)), one sleep pending at +1 h, then the scheduler is destroyed.
//   mode pool  : the same in a thread_pool(1) (start(thread_pool&)).
//   mode start : sch.start(future<int>) with the promise resolved by another thread.
//   a further argument "nodelay" = control run without the forced window (exit 0 on the unchanged library, too).  name=value arguments are ignored.
// exit 0 = returned promptly and the pending sleep was cancelled (property holds); 1 = still blocked after 3 s (violation); 2 = wrong result.
// build: g++ -std=c++20 -O1 -g -pthread -I/repo/src replay/c12_stop_lost_wakeup.cpp -o /tmp/c12_stop_lost_wakeup
#include <cocls/scheduler.h>
#include <atomic>
#include <chrono>
#include <cstdio>
#include <cstdlib>
#include <cstring>
#include <thread>
#include <time.h>
using namespace cocls;
using namespace std::chrono_literals;
static std::atomic<bool> armed{false}, in_window{false}, done{false};
static std::thread::id worker_id, main_id;
static bool worker_is_other_thread = false;         // dtor / pool mode: the worker is the one thread that is not main
static bool force_window = true;
static std::chrono::system_clock::time_point real_now() {
    timespec ts; clock_gettime(CLOCK_REALTIME, &ts);
    return std::chrono::system_clock::time_point(std::chrono::duration_cast<std::chrono::system_clock::duration>(std::chrono::seconds(ts.tv_sec) + std::chrono::nanoseconds(ts.tv_nsec)));
}
// replacement of the libstdc++ function
std::chrono::system_clock::time_point std::chrono::system_clock::now() noexcept {
    if (force_window && armed.load() && (worker_is_other_thread ? std::this_thread::get_id() != main_id : std::this_thread::get_id() == worker_id) && armed.exchange(false)) {
        in_window = true;                               // the worker has passed `if (state.stop_requested()) break;` and holds _mx
        std::this_thread::sleep_for(300ms);             // ... the stop request arrives now ...
    }
    return real_now();
}
static void watchdog(const char *what) {
    std::thread([what]{ std::this_thread::sleep_for(3s);
        if (!done) { std::printf("VIOLATION: %s still blocked after 3 s (stop request lost: the worker sleeps in wait_until until its next deadline)\n", what); std::fflush(stdout); std::_Exit(1); } }).detach();
}
static void wait_for_window() { if (force_window) while (!in_window) std::this_thread::yield(); else std::this_thread::sleep_for(100ms); }
int main(int argc, char **argv) {
    const char *mode = argc > 1 ? argv[1] : "dtor";
    for (int i = 2; i < argc; i++) if (!std::strcmp(argv[i], "nodelay")) force_window = false;
    main_id = std::this_thread::get_id();
    if (!std::strcmp(mode, "dtor") || !std::strcmp(mode, "pool")) {
        bool use_pool = !std::strcmp(mode, "pool");
        int outcome = 0;                                 // of the pending sleep: 1 = woken normally, 2 = cancelled (await_canceled_exception)
        {
            std::thread thr;
            std::optional<thread_pool> pool; if (use_pool) pool.emplace(1);
            auto *sch = new scheduler;
            future<void> sleeper = sch->sleep_until(real_now() + 1h);          // a pending sleep: must be cancelled by the destruction
            worker_is_other_thread = true; armed = true;
            if (use_pool) sch->start(*pool); else sch->start(thr);
            wait_for_window();
            watchdog(use_pool ? "~scheduler() [thread-pool mode]" : "~scheduler() [thread mode]");
            delete sch;                                  // request_stop() -> stop callback -> notify_all(), then _fut.wait()
            done = true;
            try { sleeper.wait(); sleeper.value(); outcome = 1; } catch (const await_canceled_exception &) { outcome = 2; }
            if (thr.joinable()) thr.join();
        }
        std::printf("~scheduler() returned; pending sleep %s\n", outcome == 2 ? "cancelled" : "NOT cancelled");
        return outcome == 2 ? 0 : 2;
    } else if (!std::strcmp(mode, "start")) {
        scheduler sch;
        promise<int> p; future<int> f; p = f.get_promise();
        worker_id = std::this_thread::get_id(); armed = true;         // start() runs the worker on the calling thread
        std::thread resolver([&]{
            wait_for_window();
            p(42);                                       // resolves the awaited future from another thread -> callback -> request_stop() -> stop callback
        });
        watchdog("scheduler::start(future)");
        int v = sch.start(f);
        done = true;
        resolver.join();
        std::printf("start() returned %d\n", v);
        return v == 42 ? 0 : 2;
    }
    std::printf("unknown mode %s\n", mode); return 3;
}
