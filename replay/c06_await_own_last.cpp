// C06 native replay: co_await on a suspend point whose LAST handle is the awaiting coroutine itself.
// suspend_point<void>::await_suspend(h) pops the last handle as the symmetric-transfer target and then scans the REMAINING handles for
// h ("to avoid double insert").  The popped handle is not part of that scan: when it is h itself, the awaiting coroutine continues at
// once (transfer) AND is pushed on the ready queue => it is resumed a second time at whatever suspension it has reached by then
// (C06: "none is resumed twice").
//   argv[1] = T (handles in total, own handle at index T-1; default: all T in 1..41)
// The driver counts how often it continues behind the co_await (must be 1) and how often it is resumed while parked on an awaiter
// nobody resumes (must be 0); workers must run exactly once.   exit 0 = as specified, exit 1 = violation.
#include <cocls/suspend_point.h>
#include <cocls/self.h>
#include <coroutine>
#include <cstdio>
#include <cstdlib>
#include <vector>

struct worker { struct promise_type {
        worker get_return_object() { return {std::coroutine_handle<promise_type>::from_promise(*this)}; }
        std::suspend_always initial_suspend() noexcept { return {}; } std::suspend_never final_suspend() noexcept { return {}; }
        void return_void() {} void unhandled_exception() { std::abort(); } };
    std::coroutine_handle<> h; };
static worker make_worker(int &counter) { ++counter; co_return; }
struct driver { struct promise_type {
        driver get_return_object() { return {}; } std::suspend_never initial_suspend() noexcept { return {}; }
        std::suspend_never final_suspend() noexcept { return {}; } void return_void() {} void unhandled_exception() { std::abort(); } }; };
struct stats { int continued = 0, spurious = 0; std::coroutine_handle<> parked; };
struct park { stats &st; bool await_ready() const noexcept { return false; }
    void await_suspend(std::coroutine_handle<> h) noexcept { st.parked = h; } void await_resume() const noexcept {} };

static driver run_driver(int total, std::vector<int> &counters, stats &st) {
    cocls::suspend_point<void> sp;
    for (int i = 0; i + 1 < total; i++) sp << std::coroutine_handle<>(make_worker(counters[i]).h);
    sp << co_await cocls::self();                       // own handle last
    if (sp.size() != std::size_t(total)) std::abort();
    co_await sp;
    ++st.continued;
    for (;;) { co_await park{st}; ++st.spurious; }
}
static int scenario(int total) {
    std::vector<int> counters(total > 1 ? total - 1 : 0, 0); stats st;
    cocls::coro_queue::install_queue_and_call([&] { run_driver(total, counters, st); });
    int never = 0, twice = 0; for (int c : counters) { never += c == 0; twice += c > 1; }
    int bad = never || twice || st.continued != 1 || st.spurious != 0;
    if (bad) std::printf("VIOLATION: %d handles, own handle last: awaiting coroutine continued %d x, resumed again while parked %d x; workers never run %d, more than once %d\n",
                         total, st.continued, st.spurious, never, twice);
    if (st.parked) st.parked.destroy();
    return bad;
}
int main(int argc, char **argv) {
    int lo = 1, hi = 41, f = 0;
    if (argc > 1) lo = hi = std::atoi(argv[1]);
    for (int t = lo; t <= hi; t++) f += scenario(t);
    std::printf("%d scenario(s), %d violation(s)\n", hi - lo + 1, f);
    return f ? 1 : 0;
}
