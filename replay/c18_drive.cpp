// Native run of the C18 bounded drives (drivers/c18_drive.cpp) against the real headers: the same scenario functions and the same oracle as
// specs/C18/h_drive.c, with real g++ coroutines.  Replay of a failed drive obligation ("<exe> C18 in_v=.. in_e=.. in_outcome=..") or
// stand-alone over all shapes.  Build: g++ -std=c++20 -I/repo/src -I/verif/drivers replay/c18_drive.cpp ; exit != 0 <=> oracle violated.
#include "../drivers/c18_drive.cpp"
#include <cstdio>
#include <cstdlib>
#include <cstring>
#include <new>
static long n_new = 0, n_del = 0;
void *operator new(std::size_t n) { ++n_new; void *p = std::malloc(n ? n : 1); if (!p) std::abort(); return p; }
void operator delete(void *p) noexcept { if (p) { ++n_del; std::free(p); } }
void operator delete(void *p, std::size_t) noexcept { if (p) { ++n_del; std::free(p); } }
static long pr_new, pr_del; static int pr_calls, pr_cb;
extern "C" void c18_probe(int) { ++pr_calls; pr_new = n_new; pr_del = n_del; pr_cb = g_rec.calls; }
static int failures = 0;
#define EXPECT(cond, ...) do { if (!(cond)) { ++failures; std::printf("MISMATCH: " __VA_ARGS__); std::printf("   [%s]\n", #cond); } } while (0)
static void reset() { std::memset(&g_rec, 0, sizeof(g_rec)); std::memset(&g_lrec, 0, sizeof(g_lrec)); g_st_allocs = g_st_deallocs = 0; g_st_block = g_st_freed = nullptr; g_conv_calls = 0; pr_calls = 0; }
static void outcome_checks(const char *who, int outcome, int v, int e) {
    if (outcome == 0) EXPECT(g_rec.has_value == 1 && g_rec.value == v && g_rec.exc_canceled + g_rec.exc_error + g_rec.exc_other == 0, "%s value: has=%d value=%d\n", who, g_rec.has_value, g_rec.value);
    if (outcome == 1) EXPECT(g_rec.has_value == 0 && g_rec.exc_error == 1 && g_rec.exc_code == e && g_rec.exc_canceled + g_rec.exc_other == 0, "%s exception: err=%d code=%d\n", who, g_rec.exc_error, g_rec.exc_code);
    if (outcome == 2) EXPECT(g_rec.has_value == 0 && g_rec.exc_canceled == 1 && g_rec.exc_error + g_rec.exc_other == 0, "%s drop: canceled=%d\n", who, g_rec.exc_canceled);
}
int main(int argc, char **argv) {
    int v = 42, e = 7, only_outcome = -1;
    for (int i = 1; i < argc; ++i) {
        if (!std::strncmp(argv[i], "in_v=", 5)) v = std::atoi(argv[i] + 5);
        if (!std::strncmp(argv[i], "in_e=", 5)) e = std::atoi(argv[i] + 5);
        if (!std::strncmp(argv[i], "in_outcome=", 11)) only_outcome = std::atoi(argv[i] + 11);
    }
    reset(); c18_drive(0, 0, 0, 1, 1);       // warm-up: the thread_local ready queue (std::deque) allocates on first use and keeps its blocks
    for (int outcome = 0; outcome <= 2; outcome++) {
        if (only_outcome >= 0 && outcome != only_outcome) continue;
        for (int before = 0; before <= 1; before++) {
            for (int counting = 0; counting <= 1; counting++) {           // callback_await / callback_await_alloc
                reset(); long a0 = n_new, f0 = n_del;
                c18_drive(outcome, before, counting, v, e);
                EXPECT(g_rec.calls == 1, "callback_await(outcome=%d before=%d counting=%d): callback ran %d time(s)\n", outcome, before, counting, g_rec.calls);
                EXPECT(g_rec.calls_at_return == (before ? 1 : 0), "callback_await: %d call(s) at return\n", g_rec.calls_at_return);
                outcome_checks("callback_await", outcome, v, e);
                EXPECT(n_new - a0 == 1 && n_del - f0 == 1, "callback_await: %ld block(s) allocated, %ld released\n", n_new - a0, n_del - f0);
                if (counting) EXPECT(g_st_allocs == 1 && g_st_deallocs == 1 && g_st_freed == g_st_block && g_st_dealloc_size == g_st_alloc_size, "counting storage: %d/%d sizes %lu/%lu\n", g_st_allocs, g_st_deallocs, g_st_alloc_size, g_st_dealloc_size);
                else EXPECT(g_st_allocs == 0 && g_st_deallocs == 0, "default storage touched the counting storage\n");
            }
            { reset(); long a0 = n_new, f0 = n_del;                        // discard
              c18_drive_discard(outcome, before, v, e);
              EXPECT(pr_calls == 1 && pr_new - a0 == 1 && pr_del - f0 == (before ? 1 : 0), "discard(outcome=%d before=%d): at return %ld allocated %ld released\n", outcome, before, pr_new - a0, pr_del - f0);
              EXPECT(n_new - a0 == 1 && n_del - f0 == 1, "discard: %ld allocated %ld released\n", n_new - a0, n_del - f0); }
            { reset(); long a0 = n_new, f0 = n_del;                        // call_fn_future_awaiter
              c18_drive_cfa(outcome, before, v, e);
              EXPECT(pr_cb == (before ? 1 : 0) && g_rec.calls == 1, "call_fn_future_awaiter(outcome=%d before=%d): %d call(s) at return, %d in total\n", outcome, before, pr_cb, g_rec.calls);
              outcome_checks("call_fn_future_awaiter", outcome, v, e);
              EXPECT(n_new == a0 && n_del == f0, "call_fn_future_awaiter touched the heap\n"); }
            for (int cthrows = 0; cthrows <= 1; cthrows++) {               // future_conv
                reset(); int add = 5;
                c18_drive_conv(outcome, before, cthrows, v, e, add);
                EXPECT(g_lrec.ready_at_probe == (before ? 1 : 0), "future_conv(outcome=%d before=%d): outer ready at return = %d\n", outcome, before, g_lrec.ready_at_probe);
                EXPECT(g_conv_calls == (outcome == 0 ? 1 : 0), "future_conv: converter ran %d time(s)\n", g_conv_calls);
                if (outcome == 0 && !cthrows) EXPECT(g_lrec.has_value == 1 && g_lrec.value == (long)v + add, "future_conv: value %ld\n", g_lrec.value);
                if (outcome == 0 && cthrows) EXPECT(g_lrec.exc_error == 1 && g_lrec.exc_code == v + 1000 && !g_lrec.has_value, "future_conv: converter exception code %d\n", g_lrec.exc_code);
                if (outcome == 1) EXPECT(g_lrec.exc_error == 1 && g_lrec.exc_code == e && !g_lrec.has_value, "future_conv: source exception code %d\n", g_lrec.exc_code);
                if (outcome == 2) EXPECT(g_lrec.exc_canceled == 1 && !g_lrec.has_value, "future_conv: broken promise -> canceled=%d\n", g_lrec.exc_canceled);
            }
        }
        for (int counting = 0; counting <= 1; counting++) {                // make_promise
            reset(); long a0 = n_new, f0 = n_del;
            c18_drive_mp(outcome, counting, v, e);
            EXPECT(pr_cb == 0 && pr_new - a0 == 1 && pr_del == f0, "make_promise(outcome=%d counting=%d): before resolution cb=%d alloc=%ld free=%ld\n", outcome, counting, pr_cb, pr_new - a0, pr_del - f0);
            EXPECT(g_rec.calls == 1, "make_promise: callback ran %d time(s)\n", g_rec.calls);
            outcome_checks("make_promise", outcome, v, e);
            EXPECT(n_new - a0 == 1 && n_del - f0 == 1, "make_promise: %ld allocated %ld released\n", n_new - a0, n_del - f0);
            if (counting) EXPECT(g_st_allocs == 1 && g_st_deallocs == 1 && g_st_freed == g_st_block && g_st_dealloc_size == g_st_alloc_size, "make_promise storage: %d/%d sizes %lu/%lu\n", g_st_allocs, g_st_deallocs, g_st_alloc_size, g_st_dealloc_size);
        }
    }
    std::printf("c18_drive native: %d mismatch(es)\n", failures);
    return failures ? 1 : 0;
}
