// TSan replay for the C03 obligation "thread_pool::current::current_awaiter::await_ready reads _exit without the pool mutex":
// a job running on a worker polls the static await_ready() while another thread stops the pool (stop() writes _exit under the lock).
#include <cocls/thread_pool.h>
#include <thread>
#include <atomic>
#include <cstdio>
using namespace cocls;
int main() {
    for (int round = 0; round < 50; round++) {
        thread_pool pool(1);
        std::atomic<bool> started{false}, done{false};
        pool.run_detached([&] {
            started = true;
            for (int i = 0; i < 200000 && !done.load(std::memory_order_relaxed); i++) {
                if (thread_pool::current::current_awaiter::await_ready()) break;      // unlocked read of _exit
            }
        });
        while (!started) std::this_thread::yield();
        pool.stop();                                                                   // locked write of _exit
        done = true;
    }
    std::puts("done");
    return 0;
}
