// C01 finding "throwing-ctor": promise<T>::set_value(args...) takes the right to resolve out of the promise (claim()) BEFORE it constructs
// the value in the future.  If T's constructor throws, the call leaves by exception with the right to resolve in its pocket: the promise
// is empty (every later resolver - value, exception, drop, ~promise - reports failure), nobody ever resolves, the future is pending for
// ever.  C01: "exactly one resolution takes effect ... A promise that is dropped or destroyed without a value resolves the future to
// no-value, which awaiting code observes as await_canceled_exception / has_value()==false rather than as a hang."
//
// Build:  g++ -std=c++20 -DNDEBUG -I/repo/src c01_throwing_ctor.cpp -o t && ./t [emplace|copy|second|waiter]
//   emplace : p(int)         - T constructed in place from an int
//   copy    : p(const T&)    - T copy-constructed
//   second  : after the failed call a second resolver p(std::exception_ptr) is tried (it must either win or the future must be resolved)
//   waiter  : a callback awaiter is subscribed first; after the failed call and the destruction of the promise it must have been called
// exit code 0 = the future ended up resolved (or the promise kept the right and resolved it when destroyed); 1 = the hang: the future is
// still pending although no promise can resolve it any more.  (-DNDEBUG: the verified configuration; without it ~future aborts on the
// library's own assertion "Destroy of pending future".)
#include <cocls/future.h>
#include <cstdio>
#include <cstring>
#include <stdexcept>
using namespace cocls;

static bool g_throw = true;
struct Thrower {
    int v;
    explicit Thrower(int x) : v(x) { if (g_throw) throw std::runtime_error("Thrower(int) failed"); }
    Thrower(const Thrower &o) : v(o.v) { if (g_throw) throw std::runtime_error("Thrower(const Thrower&) failed"); }
};

static int report(future<Thrower> &f, bool promise_armed_after_call, bool call_threw) {
    bool pending = f.pending();
    std::printf("call threw: %d, promise still armed after the call: %d, future pending after every promise is gone: %d\n",
                (int)call_threw, (int)promise_armed_after_call, (int)pending);
    if (pending) {
        std::puts("HANG: the future can never be resolved - the right to resolve was lost in the failed call");
        return 1;
    }
    try { f.value(); std::puts("future holds a value"); }
    catch (const await_canceled_exception &) { std::puts("future resolved to no-value (await_canceled_exception)"); }
    catch (const std::exception &e) { std::printf("future resolved with the exception: %s\n", e.what()); }
    return 0;
}

int main(int argc, char **argv) {
    const char *mode = argc > 1 ? argv[1] : "emplace";
    future<Thrower> f;
    bool armed = false, threw = false;
    int cb_calls = 0;
    awaiter aw([](awaiter *, void *ctx) noexcept -> suspend_point<void> { ++*static_cast<int *>(ctx); return {}; }, &cb_calls);
    {
        promise<Thrower> p = f.get_promise();
        if (!std::strcmp(mode, "waiter")) f.subscribe(&aw);
        try {
            if (!std::strcmp(mode, "copy")) {
                g_throw = false; Thrower src(7); g_throw = true;
                p(src);
            } else {
                p(7);
            }
        } catch (const std::exception &e) {
            threw = true;
            std::printf("resolver threw: %s\n", e.what());
        }
        armed = (bool)p;
        if (!std::strcmp(mode, "second")) {
            bool won = p(std::make_exception_ptr(std::runtime_error("second resolver")));
            std::printf("second resolver (exception_ptr) reports success: %d\n", (int)won);
        }
    }   // ~promise: an armed promise resolves the future to no-value here
    int rc = report(f, armed, threw);
    if (!std::strcmp(mode, "waiter")) {
        std::printf("waiter callback calls: %d\n", cb_calls);
        if (cb_calls != 1) { std::puts("HANG: the subscribed waiter was never released"); rc = 1; }
    }
    return rc;
}
