// C17 observation (W2) - NOT a defect against the documentation: shared_future<T>::operator<< on a DEFAULT-CONSTRUCTED object dereferences the
// empty _ptr.  The header names init_if_needed() / get_promise() as the ways to initialise a default-constructed shared_future; operator<< is
// "same as result_of".  Hardening proposal: specs/C17/fix_shift_on_empty.diff (init_if_needed() first).
// usage: c17_shift_on_empty shift_on_empty   -> exit 0: operator<< initialised the object and every copy sees the result
//                                               exit 3 (or death by SIGSEGV, reported by the child's status): null dereference
#include <cocls/shared_future.h>
#include <cstdio>
#include <cstring>
#include <sys/wait.h>
#include <unistd.h>
using namespace cocls;
static int scenario() {
    shared_future<int> f;                                  // default-constructed: no shared state
    promise<int> keep;
    f << [&]() -> future<int> { return [&](promise<int> p) { keep = std::move(p); }; };   // start an operation, keep its promise
    shared_future<int> g = f;                              // a copy
    keep(42);
    return (f.ready() && g.ready() && f.value() == 42 && &f.value() == &g.value()) ? 0 : 4;
}
int main(int argc, char **argv) {
    if (argc < 2 || std::strcmp(argv[1], "shift_on_empty") != 0) { std::fprintf(stderr, "usage: %s shift_on_empty\n", argv[0]); return 2; }
    pid_t pid = fork();
    if (pid == 0) _exit(scenario());
    int st = 0; waitpid(pid, &st, 0);
    if (WIFSIGNALED(st)) { std::printf("operator<< on a default-constructed shared_future: killed by signal %d (null dereference of _ptr)\n", WTERMSIG(st)); return 3; }
    std::printf("operator<< on a default-constructed shared_future: exit %d\n", WEXITSTATUS(st));
    return WEXITSTATUS(st);
}
