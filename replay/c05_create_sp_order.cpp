// C05 observation: coro_queue::create_suspend_point() collects the coroutines its functor made ready by popping the ready queue
// from the BACK, so the returned suspend point carries them in REVERSE of the order in which they were made ready.  A discarded
// suspend point (suspend_now) re-queues / resumes its handles in stored order, i.e. the coroutines run in reverse of the order they
// were queued; co_await on it transfers to the LAST stored one = the FIRST made ready, then the others in reverse.
//   g++ -std=c++20 -I/repo/src c05_create_sp_order.cpp -o t && ./t [discard|await|normal|once]
// exit 0: resumed in the order they were made ready (A,B,C); exit 3: some other order (printed); exit 2: not each exactly once; exit 4: ran early.
// mode once = scenario of mode discard, but only "each exactly once, none early" is checked (any order gives exit 0).
#include <cocls/future.h>
#include <cocls/async.h>
#include <cstdio>
#include <cstring>
#include <string>
#include <vector>
using namespace cocls;
static std::string trace;
static async<void> waiter(future<int> &f, char id) { co_await f; trace.push_back(id); co_return; }
static async<void> runner_discard(promise<int> pa, promise<int> pb, promise<int> pc) {
    {
        auto sp = coro_queue::create_suspend_point([&]{ pa(1); pb(2); pc(3); });   // A, B, C made ready in this order (suspend points discarded)
        if (sp.size() != 3) { std::printf("suspend point carries %zu coroutines, expected 3\n", sp.size()); std::exit(2); }
        if (!trace.empty()) { std::printf("a coroutine ran before the suspend point was discarded: %s\n", trace.c_str()); std::exit(4); }
    }                                                                              // discarded here -> re-queued
    if (!trace.empty()) { std::printf("a coroutine pre-empted its waker: %s\n", trace.c_str()); std::exit(4); }
    co_return;
}
static async<void> runner_await(promise<int> pa, promise<int> pb, promise<int> pc) {
    co_await coro_queue::create_suspend_point([&]{ pa(1); pb(2); pc(3); });
    co_return;
}
int main(int argc, char **argv) {
    const char *mode = argc > 1 ? argv[1] : "discard";
    future<int> fa, fb, fc;
    auto pa = fa.get_promise(); auto pb = fb.get_promise(); auto pc = fc.get_promise();
    bool once = !std::strcmp(mode, "once");
    if (!std::strcmp(mode, "normal")) {
        // no coroutine running: the waiters are parked first (each detach drains its own activation), then ordinary code resolves
        waiter(fa, 'A').detach(); waiter(fb, 'B').detach(); waiter(fc, 'C').detach();
        { auto sp = coro_queue::create_suspend_point([&]{ pa(1); pb(2); pc(3); });
          std::printf("normal mode: size of returned suspend point = %zu, trace inside = '%s'\n", sp.size(), trace.c_str()); }
    } else {
        coro_queue::install_queue_and_call([&]{
            waiter(fa, 'A').detach(); waiter(fb, 'B').detach(); waiter(fc, 'C').detach();     // all three suspended on their futures
            if (!std::strcmp(mode, "await")) runner_await(std::move(pa), std::move(pb), std::move(pc)).detach();
            else runner_discard(std::move(pa), std::move(pb), std::move(pc)).detach();
        });
    }
    std::printf("mode %s: made ready in order ABC, resumed in order %s\n", mode, trace.c_str());
    if (trace.size() != 3 || trace.find('A') == std::string::npos || trace.find('B') == std::string::npos || trace.find('C') == std::string::npos) return 2;
    if (once) return 0;
    return trace == "ABC" ? 0 : 3;
}
