// C12 replay (a): scheduler::remove() indexes _scheduled[0] again after it has popped the last entry.
//   g++ -std=c++20 -I<repo>/src -fno-access-control -D_GLIBCXX_ASSERTIONS [-fsanitize=address] c12_remove_empty.cpp -lpthread
// Manual mode, no worker.  History: sleep A (id X, later), sleep B (id Y, earlier)  ->  cancel(X) hits A below the top (A stays in the
// heap as an emptied entry)  ->  B expires  ->  the emptied A is now the only entry  ->  cancel(X) again.
// Property C12: the repeated cancel reports false with no other effect - in particular no crash.
// exit 0 = behaves as specified; exit 1 = wrong result; exit 3 = crashed (libstdc++ assertion / signal) inside the second cancel.
#include <cocls/scheduler.h>
#include <csignal>
#include <cstdio>
#include <unistd.h>
using namespace cocls;
static const char *stage = "start";
static void on_signal(int sig) {
    char buf[160]; int n = snprintf(buf, sizeof(buf), "c12_remove_empty: signal %d during: %s\n", sig, stage);
    if (n > 0) { ssize_t w = write(2, buf, (size_t)n); (void)w; }
    _exit(3);
}
int c12_remove_empty_run() {
    signal(SIGABRT, on_signal); signal(SIGSEGV, on_signal);
    scheduler sch;
    int X, Y;
    auto t0 = std::chrono::system_clock::time_point() + std::chrono::seconds(1000);
    future<void> fa = sch.sleep_until(t0 + std::chrono::seconds(100), &X);
    future<void> fb = sch.sleep_until(t0 + std::chrono::seconds(50), &Y);
    stage = "first cancel(X)";
    bool c1 = sch.cancel(&X);
    stage = "get_expired";
    auto e = sch.get_expired(t0 + std::chrono::seconds(60));
    bool got_b = std::holds_alternative<scheduler::promise>(e);
    if (got_b) std::get<scheduler::promise>(e)();
    stage = "second cancel(X) - nothing pending carries X";
    bool c2 = sch.cancel(&X);
    stage = "done";
    printf("cancel1=%d expiredB=%d cancel2=%d pending_after=%zu\n", (int)c1, (int)got_b, (int)c2, sch._scheduled.size());
    if (!c1 || !got_b) { printf("unexpected set-up\n"); return 2; }
    if (c2) { printf("FAIL: repeated cancel reported true\n"); return 1; }
    return 0;
}
#ifndef C12_NO_MAIN
int main(int, char **) { return c12_remove_empty_run(); }
#endif
