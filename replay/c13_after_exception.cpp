// C13 native replay: what the consumer observes AFTER an exception escaped the generator body.
//
// Property C13: "A consumer observes exactly the sequence of values the generator body yields ... followed by a single
// end-of-sequence indication, whichever access style it uses or mixes ... An exception escaping the body surfaces to the consumer at
// exactly that position".  For a body that throws after `pos` values the consumer must therefore see: the pos values, the exception
// (once, at position pos) - and with it the sequence is over.  From then on the generator has to behave like one whose end has been
// reached: done() is true, operator bool is false, and asking again gives the end-of-sequence indication of the style used
// (next() / co_await next() -> false, a fresh iterator == end()), every time, with no exception and no value.  A call on the finished
// generator may answer with a future without value or with no_more_values_exception (the library's answer to calling a finished
// generator) - never with a value, never with the body's exception again.
//
// The unchanged library never marks a generator finished when its body ended by an exception: done() stays false, operator bool stays
// true, next() / co_await next() / a fresh iterator throw no_more_values_exception instead of reporting the end.
//
// build:  g++ -std=c++20 -O1 -g -I/repo/src replay/c13_after_exception.cpp -o /tmp/c13_after_exception -lpthread
// run:    /tmp/c13_after_exception after_exception [in_pos=0..3] [in_style=0..4]     (no in_* argument: all 20 combinations)
//         styles: 0 next()/value()  1 call-to-future  2 fresh iterator  3 co_await next()  4 co_await of the call future
// exit 0 = the property holds on every combination run; 1 = violated (details on stdout).
#include <cocls/generator.h>
#include <cstdio>
#include <cstdlib>
#include <cstring>
#include <string>
using namespace cocls;

static int g_obs[8], g_nobs, g_exc_n, g_exc_at, g_exc_val, g_nmv, g_other;
static void obs(int v) { if (g_nobs < 8) g_obs[g_nobs] = v; g_nobs++; }
template<typename Fn> static void guarded(Fn &&fn) {
    try { fn(); }
    catch (int e) { g_exc_n++; g_exc_at = g_nobs; g_exc_val = e; }
    catch (const no_more_values_exception &) { g_nmv++; }
    catch (...) { g_other++; }
}
static generator<int> gen_throw(int pos, int a, int b, int c, int e) {
    if (pos == 0) throw e;
    co_yield a;
    if (pos == 1) throw e;
    co_yield b;
    if (pos == 2) throw e;
    co_yield c;
    throw e;
}
struct task {
    struct promise_type {
        task get_return_object() { return {}; }
        std::suspend_never initial_suspend() noexcept { return {}; }
        std::suspend_never final_suspend() noexcept { return {}; }
        void return_void() {}
        void unhandled_exception() { guarded([] { throw; }); }
    };
};
static task co_step(generator<int> *g, int style, int *out) {
    if (style == 3) { if (co_await g->next()) { obs(g->value()); *out = 1; } else *out = 0; }
    else { future<int> f = (*g)(); if (co_await f.has_value()) { obs(*f); *out = 1; } else *out = 0; }
}
static int step_sync(generator<int> &g, int style) {
    if (style == 0) { if (g.next()) { obs(g.value()); return 1; } return 0; }
    if (style == 1) { future<int> f = g(); if (f.has_value()) { obs(*f); return 1; } return 0; }
    generator_iterator<generator<int> > it(g); if (it != g.end()) { obs(*it); return 1; } return 0;
}
// 1: a value was observed, 0: end of sequence, -1: an exception reached the consumer (recorded)
static int xstep(generator<int> &g, int style) {
    int r = -1;
    if (style < 3) guarded([&] { r = step_sync(g, style); }); else co_step(&g, style, &r);
    return r;
}
static const char *STYLE[] = {"next()/value()", "call-to-future", "fresh iterator", "co_await next()", "co_await call future"};

static int run(int pos, int style) {
    g_nobs = g_exc_n = g_exc_at = g_exc_val = g_nmv = g_other = 0;
    const int a = 11, b = 22, c = 33, e = 77; const int want[3] = {a, b, c};
    auto g = gen_throw(pos, a, b, c, e);
    int bad = 0, r = 1, end_before = 0; std::string why; char line[256];
#define WHY(...) do { std::snprintf(line, sizeof line, __VA_ARGS__); why += line; bad = 1; } while (0)
    for (int n = 0; n < 5 && r == 1; n++) r = xstep(g, style);
    if (r == 0) end_before = 1;
    bool seq_ok = g_nobs == pos; for (int i = 0; i < pos && i < g_nobs; i++) if (g_obs[i] != want[i]) seq_ok = false;
    if (!seq_ok) WHY("  values: observed %d, yielded %d - sequence differs\n", g_nobs, pos);
    if (!(g_exc_n == 1 && g_exc_at == pos && g_exc_val == e) || end_before) WHY("  exception: reported %d x at position %d (expected once at %d), regular end instead: %d\n", g_exc_n, g_exc_at, pos, end_before);
    int fin_done = g.done() ? 1 : 0, fin_bool = g ? 1 : 0;
    if (!(fin_done == 1 && fin_bool == 0)) WHY("  after the exception: done()=%d operator bool()=%d  (the sequence is over: expected 1 / 0)\n", fin_done, fin_bool);
    int after_end = 0, after_val = 0, nmv0 = g_nmv;
    for (int i = 0; i < 2; i++) { r = xstep(g, style); if (r == 1) after_val++; else if (r == 0) after_end++; }
    int nmv = g_nmv - nmv0;
    if (after_val || g_exc_n != 1 || g_other) WHY("  asking again: %d values, body exception reported %d x in total, other exceptions %d\n", after_val, g_exc_n, g_other);
    if (style == 1 || style == 4) { if (after_end + nmv != 2) WHY("  asking again by call: %d x no value, %d x no_more_values_exception (expected 2 together)\n", after_end, nmv); }
    else if (!(after_end == 2 && nmv == 0)) WHY("  asking again: end indication %d x (expected 2 x), no_more_values_exception thrown %d x (expected 0)\n", after_end, nmv);
    std::printf("%s pos=%d style=%d (%s)\n%s", bad ? "VIOLATED" : "ok      ", pos, style, STYLE[style], why.c_str());
    return bad;
}
int main(int argc, char **argv) {
    int pos = -1, style = -1;
    for (int i = 2; i < argc; i++) {
        if (!std::strncmp(argv[i], "in_pos=", 7)) pos = std::atoi(argv[i] + 7);
        if (!std::strncmp(argv[i], "in_style=", 9)) style = std::atoi(argv[i] + 9);
    }
    int bad = 0;
    for (int p = 0; p <= 3; p++) for (int s = 0; s <= 4; s++) if ((pos < 0 || pos > 3 || p == pos) && (style < 0 || style > 4 || s == style)) bad |= run(p, s);
    std::printf(bad ? "C13 after-exception clause VIOLATED\n" : "C13 after-exception clause holds\n");
    return bad;
}
