// C18 / audit E-D7 (+ W5): the awaited operation cannot be STARTED because the function that starts it throws.
//  - callback_await: the awaitable is constructed (`Awt awt(args...)`) OUTSIDE the try block of callback_await_coro, in a detached coroutine: the exception
//    ends up in the detached coroutine's unhandled_exception() and vanishes - the completion runs ZERO times and the registering caller is not told either.
//    Property: "a completion registered through callback_await runs exactly once per awaited operation - with the operation's value, or its exception ...".
//  - discard (control, W5): the factory's exception reaches the registering caller, the helper block is released.
// Same scenario functions (drivers/c18_drive.cpp: c18_drive_cbctor, c18_drive_discard_fail) and oracle as the bounded drives drive_cbctor / drive_discard_fail.
// Build: g++ -std=c++20 -O1 -g -fsanitize=address,undefined -I/repo/src -I/verif/drivers replay/c18_start_throws.cpp -o /tmp/c18_d7 -lpthread
// Run:   /tmp/c18_d7 [D7] [in_e=..]        exit 0 = property holds, 1 = violation (each one printed).
#include "../drivers/c18_drive.cpp"
#include <cstdio>
#include <cstdlib>
#include <cstring>
#include <new>
static long n_new = 0, n_del = 0;
void *operator new(std::size_t n) { ++n_new; void *p = std::malloc(n ? n : 1); if (!p) std::abort(); return p; }
void operator delete(void *p) noexcept { if (p) { ++n_del; std::free(p); } }
void operator delete(void *p, std::size_t) noexcept { if (p) { ++n_del; std::free(p); } }
extern "C" void c18_probe(int) {}
int main(int argc, char **argv) {
    int e = 7, bad = 0;
    for (int i = 1; i < argc; ++i) if (!std::strncmp(argv[i], "in_e=", 5)) e = std::atoi(argv[i] + 5);
    std::memset(&g_rec, 0, sizeof(g_rec)); c18_drive(0, 0, 0, 1, 1);       // warm-up: the thread_local ready queue allocates on first use
    {   std::memset(&g_rec, 0, sizeof(g_rec)); g_caller_saw = g_caller_code = 0; long a0 = n_new, f0 = n_del;
        c18_drive_cbctor(e);
        bool once = g_rec.calls + g_caller_saw == 1;
        bool what = g_rec.calls == 1 ? (g_rec.has_value == 0 && g_rec.exc_error == 1 && g_rec.exc_code == e && g_rec.exc_canceled + g_rec.exc_other == 0) : g_caller_saw == 1 ? g_caller_code == e : true;
        bool heap = n_new - a0 == 1 && n_del - f0 == 1;
        bool ok = once && what && heap;
        std::printf("%s callback_await, starting the operation throws: callback calls=%d (in exception state with that exception: %d), exception seen by the registering caller=%d, frame blocks %ld/%ld\n",
                    ok ? "ok       " : "VIOLATION", g_rec.calls, g_rec.calls == 1 && what, g_caller_saw, n_new - a0, n_del - f0);
        bad += !ok; }
    {   std::memset(&g_rec, 0, sizeof(g_rec)); g_caller_saw = g_caller_code = 0; long a0 = n_new, f0 = n_del;
        c18_drive_discard_fail(e);
        bool ok = g_caller_saw == 1 && g_caller_code == e && n_new - a0 == n_del - f0 && n_new - a0 <= 1;
        std::printf("%s discard, the factory throws: exception seen by the registering caller=%d, helper blocks %ld/%ld\n", ok ? "ok       " : "VIOLATION", g_caller_saw, n_new - a0, n_del - f0);
        bad += !ok; }
    std::printf("%d violation(s)\n", bad);
    return bad ? 1 : 0;
}
