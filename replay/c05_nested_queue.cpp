// C05 native replay (open finding C05-FINDING-nested-queue): coro_queue::install_queue_and_call / install_queue_and_resume called while a queue is
// active install the SAME per-thread queue again; the trailer's flush_queue() therefore runs what the CALLER had made ready while the caller is still
// running (coro_queue.h documents a separate nested queue).  exit 0 = property holds, 1 = violation.  build: g++ -std=c++20 -O1 -g -I/repo/src
// C05: "any coroutine [the running coroutine] makes ready ... and whose suspend point it discards does not start executing
// until the running coroutine suspends or finishes" - violated when the running coroutine (or a function it calls, e.g.
// scheduler::start(awt)) enters coro_queue::install_queue_and_call / install_queue_and_resume: the "nested" queue is the SAME
// thread-local queue object, so the trailer's flush_queue() runs everything the outer coroutine has queued.
// exit 0 = property holds, 1 = violation
#include <cocls/async.h>
#include <cocls/future.h>
#include <cstdio>
#include <vector>
#include <string>
using namespace cocls;
static std::vector<std::string> trace;
static bool A_running = false; static bool preempted = false;
async<void> B(future<int> &f) { int v = co_await f; trace.push_back("B resumed v=" + std::to_string(v)); if (A_running) preempted = true; }
async<void> C() { trace.push_back("C runs"); co_return; }
async<void> A() {
    A_running = true;
    future<int> f; promise<int> p = f.get_promise();
    B(f).detach();                        // queued (coroutine mode) ...
    co_await cocls::pause();              // ... let B run up to its co_await f, we continue afterwards
    trace.push_back("A: resolves promise, discards suspend point");
    p(42);                                // B made ready, suspend point discarded -> B queued, must not run before A suspends/finishes
    trace.push_back("A: B is queued; now calls install_queue_and_resume(C) (documented as 'nested queue')");
    auto c = C(); 
    coro_queue::install_queue_and_call([&]{ c.detach(); });   // same effect with install_queue_and_resume(h)
    trace.push_back("A: still running after the nested call");
    A_running = false;
    co_return;
}
int main() {
    A().join();
    for (auto &s : trace) std::printf("%s\n", s.c_str());
    if (preempted) { std::printf("VIOLATION: B (made ready by A, suspend point discarded) ran while A was still running\n"); return 1; }
    std::printf("ok\n"); return 0;
}
