// C11 - native reproduction: a second stop() / the destructor returns while the workers are still running, because a concurrent stop() from one
// of the pool's own threads has taken the worker list.
//   g++ -std=c++20 -O1 -I/repo/src -pthread -g c11_stop_concurrent.cpp -o c11_stop_concurrent && ./c11_stop_concurrent dtor ; ./c11_stop_concurrent stop
//   (use-after-free made visible:  g++ ... -fsanitize=thread ... && ./c11_stop_concurrent dtor_free  -> heap-use-after-free in worker() at lk.lock(), thread_pool.h:67)
// Property C11: "stop() and the destructor terminate and join all workers without deadlock for every timing, including when invoked from one of
// the pool's own threads."
// stop() moves the WHOLE worker list into a local variable of the first caller and joins from there.  Any other stop() - in particular the one in
// ~thread_pool - that arrives while the first caller is still joining finds an empty list, joins nobody and returns at once: workers are still
// running, and after the destructor they touch a destroyed object (worker(): `if (_current == nullptr) return; lk.lock();` - _current is still set).
// Scenario (2 workers): W2 runs a 600 ms job; W1's job calls pool.stop() (takes the list, detaches itself, blocks in join(W2)); then the owner
//   mode dtor : destroys the pool (placement storage, not released, so nothing crashes here)      mode stop : calls pool.stop() itself
// Checker obligation: the clauses marked C11-OPEN2-workers-taken-by-concurrent-stop in specs/C11/tp_spec.h (units dtor, stop_concurrent).
// Exit code: 0 = when the call returned no worker was executing any more; 1 = it returned while W2 was still inside its job (not joined).
#include <cocls/thread_pool.h>
#include <atomic>
#include <chrono>
#include <cstdio>
#include <cstdlib>
#include <cstring>
#include <new>
#include <thread>
using namespace cocls;
using namespace std::chrono_literals;

static std::atomic<bool> w2_running{false}, w2_done{false}, w1_stopping{false}, w1_done{false};

int main(int argc, char **argv) {
    const char *mode = argc > 1 ? argv[1] : "dtor";
    void *mem = std::malloc(sizeof(thread_pool));
    thread_pool *pool = new(mem) thread_pool(2);
    pool->run_detached([]{ w2_running = true; std::this_thread::sleep_for(600ms); w2_done = true; });       // W2: a job that takes a while
    while (!w2_running) std::this_thread::sleep_for(1ms);
    pool->run_detached([pool]{ w1_stopping = true; pool->stop(); w1_done = true; });                        // W1: stops the pool from inside
    while (!w1_stopping) std::this_thread::sleep_for(1ms);
    std::this_thread::sleep_for(150ms);                        // W1 is inside stop() now: it owns the worker list and is blocked in join(W2)
    bool is_stop = !std::strcmp(mode, "stop");
    if (is_stop) pool->stop(); else pool->~thread_pool();      // the owner's call: must not return before the workers are gone
    bool still_running = !w2_done.load();
    std::printf("%s returned; W2 still inside its job: %s; W1's stop() finished: %s\n", is_stop ? "second stop()" : "~thread_pool", still_running ? "YES" : "no", w1_done.load() ? "yes" : "NO");
    if (still_running) {
        std::printf(is_stop ? "RESULT: VIOLATION - stop() returned although a worker is still executing a job: the worker list had been taken by the concurrent stop() of a pool thread, nothing was joined\n"
                            : "RESULT: VIOLATION - the destructor returned without the workers being joined (list taken by the concurrent stop() of a pool thread); W2 will lock the mutex of the destroyed pool (thread_pool.h:67)\n");
        std::fflush(stdout);
        if (!std::strcmp(mode, "dtor_free")) { std::free(mem); std::this_thread::sleep_for(1s); }           // under TSan/ASan: W2's lk.lock() on the freed pool is reported
        std::_Exit(1);
    }
    std::printf("RESULT: every worker had terminated when the call returned\n");
    std::fflush(stdout);
    std::this_thread::sleep_for(100ms);                        // W1 (detached) leaves its job; it does not touch the pool any more
    std::_Exit(0);
}
