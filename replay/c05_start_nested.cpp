// C05 native replay (open finding C05-FINDING-start-nested): async::start() in coroutine mode resumes the child directly (nested activation);
// the child's co_await pause() takes the head of the ready queue - a coroutine the STARTER made ready - which then runs on top of the still
// running starter.  exit 0 = holds, 1 = violation.  build: g++ -std=c++20 -O1 -g -I/repo/src
// C05 run-to-suspension: A (running, coroutine mode) makes B ready and discards the suspend point, then starts a child with
// async::start().  In coroutine mode start() resumes the child DIRECTLY (nested call, async.h:56); when the child does
// co_await pause() (or any symmetric transfer that takes from the ready queue) the queue head - B - is resumed on top of A's stack.
// exit 0 = property holds, 1 = violation
#include <cocls/async.h>
#include <cocls/future.h>
#include <cstdio>
using namespace cocls;
static bool A_running = false, preempted = false; static int order = 0, b_at = 0, a_end_at = 0;
async<void> B() { b_at = ++order; if (A_running) preempted = true; std::puts("B runs"); co_return; }
async<int> child() { std::puts("child: pause"); co_await cocls::pause(); std::puts("child: continues"); co_return 1; }
async<void> A() {
    A_running = true;
    B().detach();                               // coroutine mode: B is queued, must not start before A suspends or finishes
    std::puts("A: B queued; A starts child with start()");
    future<int> fc = child().start();           // nested resume of child; child pauses -> B is taken from the queue and run NOW
    std::puts("A: after start()");
    a_end_at = ++order; A_running = false;
    int v = co_await fc; (void)v;
}
int main() { A().join(); std::printf("B ran at step %d, A reached its first suspension at step %d\n", b_at, a_end_at);
  if (preempted) { std::puts("VIOLATION: B started executing while A was running (A had neither suspended nor finished)"); return 1; } std::puts("ok"); return 0; }
