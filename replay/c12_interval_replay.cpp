// C12 replay driver for unit `interval_stop_cb` (the stop callback of scheduler::interval() with cancel()/remove() inlined): runs the
// native scenarios that correspond to its obligations, each in its own process:
//   (c) c12_interval_stop.cpp - the callback locks _mx and remove() locks it again (self-deadlock),
//   (a) c12_remove_empty.cpp  - remove() indexes the emptied vector (same defect as in unit `remove`, reached through the callback's cancel()).
// exit 0 = both behave as property C12 says; otherwise 10*[c misbehaves] + [a misbehaves].
#define C12_NO_MAIN 1
#include "c12_interval_stop.cpp"
#include "c12_remove_empty.cpp"
#include <sys/wait.h>
static int run_child(const char *name, int (*fn)()) {
    fflush(stdout);
    pid_t pid = fork();
    if (pid == 0) { int r = fn(); fflush(stdout); _exit(r); }
    int st = 0; waitpid(pid, &st, 0);
    int code = WIFEXITED(st) ? WEXITSTATUS(st) : 128 + WTERMSIG(st);
    printf("[%s] exit %d => %s\n", name, code, code == 0 ? "as specified" : "MISBEHAVES");
    return code;
}
int main(int, char **) {
    int c = run_child("c: stop token fires while a tick is pending (c12_interval_stop)", c12_interval_stop_run);
    int a = run_child("a: repeated cancel after expiry (c12_remove_empty)", c12_remove_empty_run);
    return (c ? 10 : 0) + (a ? 1 : 0);
}
