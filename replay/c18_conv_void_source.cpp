// C18 / audit E-D3: "Converters deliver exactly the converted value, or the exception thrown by the source or the converter, to the outer future."
// The future_conv specialisations for a VOID source - To (Ctx::*)() and suspend_point<void> (Ctx::*)(promise<To>&) - must hand a FAILED source
// (exception, or source promise dropped = await_canceled_exception) on to the outer future and must not run the converter for it.
// Deterministic: both specialisations x source outcome (value / exception / dropped) x timing (resolved at registration / later).
// Native replay of C18/conv_v_invoke, conv_vp_invoke (postconditions "source's exception", "broken promise", "converter not run").
// Build: g++ -std=c++20 -O1 -g -fsanitize=address,undefined -I/repo/src replay/c18_conv_void_source.cpp -o /tmp/c18_d3 -lpthread
// Run:   /tmp/c18_d3 [D3] [gh_out_state=0|1|3 ...]      exit 0 = property holds, 1 = violation (each one printed).
#include <cocls/future_conv.h>
#include <cstdio>
#include <cstdlib>
#include <cstring>
#include <stdexcept>
struct src_error { int code; };
struct Ctx {
    int calls = 0;
    long conv0() { ++calls; return 7; }
    cocls::suspend_point<void> conv0_p(cocls::promise<long> &p) { ++calls; return p(7L); }
    cocls::future_conv<&Ctx::conv0> c{this};
    cocls::future_conv<&Ctx::conv0_p> cp{this};
};
static void finish(cocls::promise<void> &p, int outcome) {
    if (outcome == 0) p();
    else if (outcome == 1) p(std::make_exception_ptr(src_error{11}));
    else p(cocls::drop);
}
static const char *oname[] = {"value", "exception", "dropped"};
static int run(int spec, int outcome, bool late) {
    Ctx ctx;
    cocls::promise<void> sp;
    auto start = [&]() -> cocls::future<void> {
        return [&](cocls::promise<void> p) { if (late) sp = std::move(p); else finish(p, outcome); };
    };
    cocls::future<long> outer = spec == 0 ? (ctx.c << start) : (ctx.cp << start);
    if (late) finish(sp, outcome);
    int got = -1; long v = 0;       // 0 value, 1 source's exception, 2 await_canceled, 3 something else
    try { v = outer.value(); got = 0; }
    catch (const src_error &e) { got = e.code == 11 ? 1 : 3; }
    catch (const cocls::await_canceled_exception &) { got = 2; }
    catch (...) { got = 3; }
    bool ok = got == outcome && (outcome != 0 || v == 7) && ctx.calls == (outcome == 0 ? 1 : 0);
    std::printf("%s future_conv<%s> source=%s %s: outer holds %s%s, converter calls=%d\n", ok ? "ok       " : "VIOLATION", spec == 0 ? "To (Ctx::*)()" : "suspend_point<void> (Ctx::*)(promise<To>&)",
                oname[outcome], late ? "late " : "early", got == 0 ? "VALUE" : got == 1 ? "the source's exception" : got == 2 ? "await_canceled_exception" : "another exception",
                (got == 0 && outcome != 0) ? " (source outcome lost)" : "", ctx.calls);
    return ok ? 0 : 1;
}
int main(int argc, char **argv) {
    int only = -1;          // gh_out_state of the verifier's trace: 0 not_value (dropped), 1 value, 3 exception
    for (int i = 1; i < argc; ++i) if (!std::strncmp(argv[i], "gh_out_state=", 13)) { int s = std::atoi(argv[i] + 13); only = s == 1 ? 0 : s == 3 ? 1 : 2; }
    int bad = 0;
    for (int spec = 0; spec < 2; ++spec) for (int o = 0; o <= 2; ++o) for (int l = 0; l < 2; ++l) if (only < 0 || only == o) bad += run(spec, o, l);
    std::printf("%d violation(s)\n", bad);
    return bad ? 1 : 0;
}
