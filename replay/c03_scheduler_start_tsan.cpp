// C03 ThreadSanitizer replay (registered with unit start_future of specs/C12, run by C03 with CV_CHECK_C03): data race on scheduler::_elide_state.
//
// Property C03: cross-thread operations "... scheduling and cancelling timers ... contain no data race in the sense of the C++ memory model", for every
// pair of conflicting accesses reachable through the documented multi-threaded API.  scheduler::start(awt) is documented (scheduler.h:219-220):
// "it is possible to start scheduler in multiple threads ... Each thread can access to shared list of scheduled tasks."  start() builds
// `stack_storage storage(_elide_state)` (scheduler.h:242) over a plain member of the scheduler: the stack_storage constructor reads it
// (alloca_storage.h:29) and stack_storage::alloc() writes it (alloca_storage.h:45, when the frame of the completion callback did not fit) - no lock, not
// atomic.  Two threads that call start() on one scheduler conflict on it.
// Each thread awaits its OWN, already resolved future, so that start() returns at once and no completion crosses threads: the only shared state the two
// calls touch is the scheduler object itself.  Repeated on fresh schedulers (the write happens on the first start() of a scheduler only).
//   name=value / mode arguments are ignored.
// exit 0 = ThreadSanitizer reported nothing (property holds on this run), 66 = data race reported (violation).
// build: g++ -std=c++20 -O1 -g -pthread -fsanitize=thread -I/repo/src replay/c03_scheduler_start_tsan.cpp -o /tmp/c03_scheduler_start_tsan
#include <cocls/scheduler.h>
#include <atomic>
#include <cstdio>
#include <memory>
#include <thread>
using namespace cocls;
extern "C" const char *__tsan_default_options() { return "exitcode=66:halt_on_error=0:report_signal_unsafe=0"; }
int main() {
    int sum = 0;
    for (int round = 0; round < 20; round++) {
        auto sch = std::make_unique<scheduler>();
        std::atomic<int> go{0};
        int r[2] = {0, 0};
        auto run = [&](int i) {
            future<int> f; { auto p = f.get_promise(); p(i + 1); }     // resolved by this thread, before start()
            go.fetch_add(1, std::memory_order_relaxed);
            while (go.load(std::memory_order_relaxed) < 2) {}          // relaxed: the barrier itself orders nothing
            r[i] = sch->start(f);                                       // documented: several threads may run the same scheduler
        };
        std::thread a([&] { run(0); }), b([&] { run(1); });
        a.join(); b.join();
        sum += r[0] + r[1];
    }
    std::printf("all start() calls returned (checksum %d, expected 60)\n", sum);
    return sum == 60 ? 0 : 2;
}
