// C16 native replay: the BLOCKING form of subscriber::next() (`bool r = sub.next();`, next_awt::operator bool) when it really has to wait.
// operator bool() -> co_awaiter<subscriber>::wait() -> sync(); return await_resume();  - inside the base class template `await_resume`
// binds to co_awaiter::await_resume() (= _owner.value()), not to next_awt::await_resume() (= _owner.check_next()): the new item is
// never fetched; the result is (bool)*_val of the previous / disengaged optional.
// Build: g++ -std=c++20 -I/repo/src -fno-access-control c16_blocking_next.cpp -lpthread    (add -D_GLIBCXX_ASSERTIONS: aborts in optional::operator*)
// Usage: c16_blocking_next [mode] [name=value ...]  modes: threads (default: a publisher thread publishes while main blocks) |
//        steps (deterministic, single thread: the publish lands between operator bool's await_ready() and wait()).
// Exit 0: next() returned true and value() is the published value.  Exit 1: value lost / bogus end-of-stream.
#include <cocls/publisher.h>
#include <thread>
#include <chrono>
#include <cstdio>
#include <cstring>
using namespace cocls;

static int report(const char *what, bool r, subscriber<int> &sub, int expect) {
    bool has = sub._val.has_value();
    std::printf("%s: next() -> %d, optional engaged=%d", what, r, (int)has);
    if (has) std::printf(", value=%d", *sub._val);
    std::printf(", position=%zu (published %d at position 1, publisher NOT closed)\n", sub.position(), expect);
    if (!r || !has || *sub._val != expect) {
        std::printf("DEFECT: the blocking next() reported %s and did not fetch the published value\n", r ? "success" : "end-of-stream");
        return 1;
    }
    std::printf("ok\n");
    return 0;
}
static int scenario_threads(int v) {
    publisher<int> pub; subscriber<int> sub(pub);
    std::thread t([&] { std::this_thread::sleep_for(std::chrono::milliseconds(100)); pub.publish(v); });
    bool r = sub.next();                       // blocks: nothing published yet
    t.join();
    return report("threads", r, sub, v);
}
static int scenario_steps(int v) {
    publisher<int> pub; subscriber<int> sub(pub);
    auto a = sub.next();
    bool rdy = a.await_ready();                // operator bool(): if (!await_ready()) ...   -> false
    pub.publish(v);                            // other thread publishes in the window
    bool r = rdy ? a.await_resume() : (bool)a.wait();   // ... return wait();
    return report("steps", r, sub, v);
}
int main(int argc, char **argv) {
    int v = 7; const char *mode = argc > 1 ? argv[1] : "threads";
    for (int i = 1; i < argc; i++) if (!std::strncmp(argv[i], "in_value=", 9)) v = std::atoi(argv[i] + 9);
    if (v == 0) v = 7;                         // 0 would make the stale-value-as-bool reading ambiguous
    if (!std::strcmp(mode, "steps")) return scenario_steps(v);
    return scenario_threads(v);
}
