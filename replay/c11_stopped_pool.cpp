// C11 known finding - native reproduction against the real headers.
//   g++ -std=c++20 -I/repo/src -pthread c11_stopped_pool.cpp && ./a.out [all|run_async|resume_sp|run_async_queued|resume_sp_queued|pool_call]
// thread_pool::resume(suspend_point&) and thread_pool::run(async<T>) wrap the raw coroutine handle in a plain closure `[h]{coro_queue::resume(h);}`.
// If the pool is stopped - enqueue() rejects the closure, or stop() swaps the queue out and destroys it un-run - the coroutine is neither
// resumed nor cancelled: the future returned by run(async) stays pending forever, the coroutine frame (and everything it owns) leaks.
// run(fn) and co_await pool cancel correctly (broken promise / await_canceled_exception) and are shown for contrast.
// Exit code: 0 = every submission ran once or was cancelled observably; 1 = a coroutine was lost (the real code misbehaves). Never hangs.
#include <cocls/thread_pool.h>
#include <cocls/async.h>
#include <cocls/future.h>
#include <atomic>
#include <chrono>
#include <cstdio>
#include <cstdlib>
#include <cstring>
#include <thread>
using namespace cocls;
using namespace std::chrono_literals;

static std::atomic<int> g_ran{0}, g_frames_destroyed{0};
struct FrameGuard { ~FrameGuard() { g_frames_destroyed++; } };          // lives in the coroutine frame

static async<int> coro_int(int x) { FrameGuard g; g_ran++; co_return x + 1; }
static async<void> coro_void() { FrameGuard g; g_ran++; co_return; }

template<typename Pred> static bool wait_for(Pred p, int ms = 500) {
    for (int i = 0; i < ms / 5; i++) { if (p()) return true; std::this_thread::sleep_for(5ms); }
    return p();
}
static int lost = 0;
static void verdict(const char *what, bool pending, int ran, int destroyed) {
    bool bad = pending || (ran == 0 && destroyed == 0);
    std::printf("%-52s pending=%d ran=%d frame_destroyed=%d  -> %s\n", what, (int)pending, ran, destroyed, bad ? "LOST (neither run nor cancelled)" : "ok");
    if (bad) lost++;
}

// (1) run(async) on a pool that is already stopped: enqueue() rejects the closure
static void run_async_stopped() {
    g_ran = 0; g_frames_destroyed = 0;
    auto *pool = new thread_pool(1);
    pool->stop();
    auto *f = new future<int>(pool->run(coro_int(41)));
    wait_for([&]{ return !f->pending(); }, 300);
    verdict("run(async) on a stopped pool", f->pending(), g_ran.load(), g_frames_destroyed.load());
}
// (2) resume(suspend_point) on a stopped pool
static void resume_sp_stopped() {
    g_ran = 0; g_frames_destroyed = 0;
    auto *pool = new thread_pool(1);
    pool->stop();
    {
        suspend_point<void> sp = coro_void().detach();
        pool->resume(sp);
    }
    wait_for([&]{ return g_ran.load() != 0 || g_frames_destroyed.load() != 0; }, 300);
    verdict("resume(suspend_point) on a stopped pool", false, g_ran.load(), g_frames_destroyed.load());
}
// (3)/(4) the closure is accepted while the only worker is busy; stop() then swaps the queue out and destroys the closure un-run
template<typename Submit> static void queued_then_stop(const char *what, Submit submit, bool has_future) {
    g_ran = 0; g_frames_destroyed = 0;
    auto *pool = new thread_pool(1);
    std::atomic<bool> busy{false}, gate{false};
    pool->run_detached([&]{ busy = true; while (!gate) std::this_thread::sleep_for(1ms); });
    if (!wait_for([&]{ return busy.load(); })) { std::printf("%s: worker did not start\n", what); std::fflush(stdout); std::_Exit(3); }
    future<int> *f = submit(*pool);                                  // queued behind the busy job
    std::atomic<bool> stopped{false};
    std::thread stopper([&]{ pool->stop(); stopped = true; });     // sets the flag, swaps the queue out, then joins the busy worker
    std::this_thread::sleep_for(50ms);
    gate = true;                                                     // let the worker finish: it sees the exit flag and leaves
    if (!wait_for([&]{ return stopped.load(); }, 2000)) { std::printf("%s: stop() did not return\n", what); std::fflush(stdout); std::_Exit(3); }
    stopper.join();
    if (has_future) wait_for([&]{ return !f->pending(); }, 300); else wait_for([&]{ return g_ran.load() != 0 || g_frames_destroyed.load() != 0; }, 300);
    verdict(what, has_future && f->pending(), g_ran.load(), g_frames_destroyed.load());
}
// (5) co_await pool(awaitable): the awaited future is resolved after the pool was stopped; the continuation goes through resume(suspend_point)
static std::atomic<int> g_cont{0};
static async<void> hop_after(thread_pool &p, future<int> &f) { FrameGuard g; try { (void)co_await p(f); g_ran++; } catch (...) { g_cont++; } co_return; }
static void pool_call_stopped() {
    g_ran = 0; g_frames_destroyed = 0; g_cont = 0;
    auto *pool = new thread_pool(1);
    auto *f = new future<int>();
    auto pr = f->get_promise();
    hop_after(*pool, *f).detach();                   // suspends on the future
    pool->stop();
    pr(42);                                           // resolution -> perform_resume -> pool.resume(suspend_point) -> closure rejected
    wait_for([&]{ return g_ran.load() != 0 || g_cont.load() != 0 || g_frames_destroyed.load() != 0; }, 300);
    verdict("co_await pool(future), pool stopped before resolution", false, g_ran.load() + g_cont.load(), g_frames_destroyed.load());
}
// contrast: run(fn) and co_await pool on a stopped pool are cancelled observably
static std::atomic<int> g_canceled{0};
static async<void> hop(thread_pool &p) { try { co_await p; } catch (const await_canceled_exception &) { g_canceled++; } co_return; }
static void contrast() {
    auto *pool = new thread_pool(1);
    pool->stop();
    auto *f = new future<int>(pool->run([]{ return 1; }));
    bool broken = false;
    if (!f->pending()) { try { (void)f->value(); } catch (const await_canceled_exception &) { broken = true; } catch (...) {} }
    std::printf("%-52s pending=%d broken_promise=%d            -> %s\n", "run(fn) on a stopped pool (contrast)", (int)f->pending(), (int)broken, broken ? "ok" : "UNEXPECTED");
    if (!broken) lost++;
    hop(*pool).detach();
    wait_for([&]{ return g_canceled.load() == 1; }, 300);
    std::printf("%-52s canceled=%d                                  -> %s\n", "co_await pool on a stopped pool (contrast)", g_canceled.load(), g_canceled.load() == 1 ? "ok" : "UNEXPECTED");
    if (g_canceled.load() != 1) lost++;
}

int main(int argc, char **argv) {
    const char *mode = argc > 1 ? argv[1] : "all";
    bool all = !std::strcmp(mode, "all") || !std::strcmp(mode, "C11");
    if (all || !std::strcmp(mode, "run_async")) run_async_stopped();
    if (all || !std::strcmp(mode, "resume_sp")) resume_sp_stopped();
    if (all || !std::strcmp(mode, "run_async") || !std::strcmp(mode, "run_async_queued"))
        queued_then_stop("run(async) queued, then stop()", [](thread_pool &p){ return new future<int>(p.run(coro_int(1))); }, true);
    if (all || !std::strcmp(mode, "resume_sp") || !std::strcmp(mode, "resume_sp_queued"))
        queued_then_stop("resume(suspend_point) queued, then stop()", [](thread_pool &p){ suspend_point<void> sp = coro_void().detach(); p.resume(sp); return (future<int> *)nullptr; }, false);
    if (all || !std::strcmp(mode, "resume_sp") || !std::strcmp(mode, "pool_call")) pool_call_stopped();
    if (all) contrast();
    std::printf("%s\n", lost ? "RESULT: the real code loses submissions on a stopped pool" : "RESULT: every submission ran once or was cancelled observably");
    std::fflush(stdout);
    std::_Exit(lost ? 1 : 0);          // no destructors: pools and futures are leaked on purpose (a lost coroutine would make them hang)
}
