// C18 / audit E "Adjacent" = audit A item 2: future_with_cb<T,Fn> is the helper object of make_promise; future_with_cb::operator<<(factory) is its second
// registration route.  "A completion registered through ... runs exactly once per awaited operation ... whether the awaited future was already resolved at
// registration [or] resolves later ..., and the helper's heap or storage block is released exactly once afterwards."
// The unchanged operator<< forwards to future<T>::operator<< = result_of(), which destroys and re-creates the future sub-object in place and so wipes the
// self-registration `_awaiter = this` made by the constructor: the callback never runs and the heap object is never deleted.
// Native replay of C18/cb_shift (clause C18-CBSHIFT).  Deterministic: outcome (value / exception / dropped) x timing (resolved at registration / later).
// Build: g++ -std=c++20 -O1 -g -DNDEBUG -fsanitize=address,undefined -I/repo/src replay/c18_future_with_cb_shift.cpp -o /tmp/c18_cbshift -lpthread
//        (without -DNDEBUG the unchanged operator<< aborts at once in ~future_common: "Destroy of pending future")
// Run:   ASAN_OPTIONS=detect_leaks=0 /tmp/c18_cbshift [CBSHIFT]      exit 0 = property holds, 1 = violation (each one printed).
#include <cocls/future.h>
#include <cstdio>
#include <cstdlib>
#include <stdexcept>
extern "C" const char *__asan_default_options() { return "detect_leaks=0"; }      // the leak is counted by the oracle itself (live helper objects)
struct src_error { int code; };
static int live = 0, calls = 0, seen = -1;      // seen: 0 value 42, 1 src_error{11}, 2 await_canceled, 3 anything else
struct Cb {
    Cb() { ++live; } Cb(Cb &&) { ++live; } ~Cb() { --live; }
    void operator()(cocls::future<int> &f) {
        ++calls;
        try { seen = f.value() == 42 ? 0 : 3; }
        catch (const src_error &e) { seen = e.code == 11 ? 1 : 3; }
        catch (const cocls::await_canceled_exception &) { seen = 2; }
        catch (...) { seen = 3; }
    }
};
static void finish(cocls::promise<int> &p, int outcome) {
    if (outcome == 0) p(42);
    else if (outcome == 1) p(std::make_exception_ptr(src_error{11}));
    else p(cocls::drop);
}
static const char *oname[] = {"value", "exception", "dropped promise"};
static int run(int outcome, bool late) {
    calls = 0; seen = -1; int live0 = live;
    cocls::promise<int> parked;
    {
        auto *f = new cocls::future_with_cb<int, Cb>(Cb());
        *f << [&]() -> cocls::future<int> { return [&](cocls::promise<int> p) { if (late) parked = std::move(p); else finish(p, outcome); }; };
    }
    int at_return = calls;
    if (late) finish(parked, outcome);
    bool ok = calls == 1 && at_return == (late ? 0 : 1) && seen == outcome && live == live0;
    std::printf("%s future_with_cb << operation=%s resolved %s: callback calls=%d (at return %d), outcome seen %s, helper objects still alive=%d\n", ok ? "ok       " : "VIOLATION",
                oname[outcome], late ? "later          " : "at registration", calls, at_return, seen == outcome ? "right" : calls ? "WRONG" : "-", live - live0);
    return ok ? 0 : 1;
}
int main() {
    {   // control: the make_promise route of the same helper works
        calls = 0; cocls::promise<int> p = cocls::make_promise<int>(Cb()); p(42);
        std::printf("control   make_promise route: callback calls=%d, helper objects still alive=%d\n", calls, live);
        if (calls != 1 || live != 0) return 3;
    }
    int bad = 0;
    for (int o = 0; o <= 2; ++o) for (int l = 0; l < 2; ++l) bad += run(o, l);
    std::printf("%d violation(s)\n", bad);
    return bad ? 1 : 0;
}
