// C16 native replay (audit D5): "The skipping modes only ever move forward (strictly increasing positions)".
// What it shows: queue::get_value_lk hands a skipping subscriber the newest (skip_to_recent) / the oldest retained (skip_if_behind, when
// its own position is gone) value WITHOUT recording the position of that value in the registration.  The next next() advances from
// the stale registration and lands on the position that was just delivered: the SAME stream position is delivered twice, and
// position() does not name the position of value().  Two triggers, both deterministic:
//   batch : single thread, public API only - a subscriber parked in `co_await next()`, then ONE batch publish(beg,end) of >= 2 items
//           (skip_to_recent) resp. a batch longer than max (skip_if_behind);
//   race  : one publish() of another thread between the two critical sections ready() / check_next() of one next().  The
//           interleaving is forced by calling the lock-atomic steps one by one on the real object (-fno-access-control), the
//           interfering publish in between - a legal interleaving of the real multi-threaded program (DESIGN 4.3).
// Values published are their own stream positions (1,2,3,...), so the delivered value IS the delivered position.
// Build: g++ -std=c++20 -I/repo/src -fno-access-control c16_skip_dup.cpp -lpthread
// Usage: c16_skip_dup [mode] [name=value ...]    (name=value arguments of tools/replay.py are accepted and ignored: input independent)
//   modes: dup (default) | get_value | polled_skip : batch + race scenarios
//          awaited_skip  : the same + the close-race scenarios of c16_close_race.cpp (mode skip)   [unit proto_awaited__skip]
//          blocking_skip : the same + the blocking scenario of c16_blocking_next.cpp (mode steps)   [unit proto_blocking__skip]
// Exit 0: every delivered position is strictly beyond the previous one and position() names it.  Exit 1: duplicate / stale position.
#include <cocls/publisher.h>
#include <cocls/async.h>
#include <cstdio>
#include <cstring>
#include <vector>
#define main c16_close_race_main
#include "c16_close_race.cpp"
#undef main
#define main c16_blocking_next_main
#define scenario_steps c16_blocking_scenario_steps
#include "c16_blocking_next.cpp"
#undef scenario_steps
#undef main
using namespace cocls;

struct seen_t { std::vector<int> val; std::vector<std::size_t> pos; };
static async<void> consumer(publisher<int> &pub, subscribtion_type t, seen_t &out, int limit) {
    subscriber<int> sub(pub, t);
    for (;;) {
        if ((int)out.val.size() >= limit) break;
        bool more = co_await sub.next();
        if (!more) break;
        out.val.push_back(sub.value()); out.pos.push_back(sub.position());
    }
}
static int check(const char *name, const seen_t &s) {
    int bad = 0;
    std::printf("%s: delivered", name); for (int v : s.val) std::printf(" %d", v);
    std::printf("  | position() after each:"); for (auto p : s.pos) std::printf(" %zu", p); std::printf("\n");
    for (std::size_t i = 1; i < s.val.size(); i++) if (s.val[i] <= s.val[i - 1]) {
        std::printf("  DEFECT: position %d delivered after position %d (not strictly increasing)\n", s.val[i], s.val[i - 1]); bad = 1; }
    for (std::size_t i = 0; i < s.val.size(); i++) if (s.pos[i] != (std::size_t)s.val[i]) {
        std::printf("  DEFECT: position() says %zu while value() is the value published at position %d\n", s.pos[i], s.val[i]); bad = 1; }
    return bad;
}
// ---- batch: public API only, one thread
static int scenario_batch() {
    int bad = 0;
    {
        publisher<int> pub; seen_t got;
        consumer(pub, subscribtion_type::skip_to_recent, got, 4).detach();   // parks: nothing published yet
        std::vector<int> batch{1, 2};
        pub.publish(batch.begin(), batch.end());                            // one batch of two
        pub.publish(3);
        pub.close();
        bad |= check("batch  skip_to_recent, publish{1,2} then 3        ", got);
    }
    {
        publisher<int> pub(1 /*max*/, 1 /*min*/); seen_t got;
        consumer(pub, subscribtion_type::skip_if_behind, got, 4).detach();
        std::vector<int> batch{1, 2, 3};
        pub.publish(batch.begin(), batch.end());                            // batch longer than the maximum queue length
        pub.publish(4);
        pub.close();
        bad |= check("batch  skip_if_behind max=1, publish{1,2,3} then 4", got);
    }
    {   // control: all_values with the same batch
        publisher<int> pub; seen_t got;
        consumer(pub, subscribtion_type::all_values, got, 4).detach();
        std::vector<int> batch{1, 2};
        pub.publish(batch.begin(), batch.end());
        pub.publish(3);
        pub.close();
        if (check("batch  all_values (control)                       ", got) || got.val != std::vector<int>{1, 2, 3}) { std::printf("  control failed\n"); bad |= 2; }
    }
    return bad;
}
// ---- race: the lock-atomic steps of next_ready() = ready() ; check_next(), a publish of "the other thread" in between
static void step(subscriber<int> &s, seen_t &out, int npub_between, publisher<int> &pub, int &nextval) {
    bool r = s.ready();
    for (int i = 0; i < npub_between; i++) pub.publish(nextval++);          // <- publisher thread
    if (r && s.check_next()) { out.val.push_back(s.value()); out.pos.push_back(s.position()); }
}
static int scenario_race() {
    int bad = 0;
    {
        publisher<int> pub; subscriber<int> s(pub, subscribtion_type::skip_to_recent); seen_t got; int nv = 1;
        pub.publish(nv++);                        // 1
        step(s, got, 1, pub, nv);                 // next #1: ready() at position 1, publish(2) lands, check_next() yields the newest = 2
        step(s, got, 0, pub, nv);                 // next #2: must NOT yield position 2 again
        bad |= check("race   skip_to_recent, publish between ready/check ", got);
    }
    {
        publisher<int> pub(2, 1); subscriber<int> s(pub, subscribtion_type::skip_if_behind); seen_t got; int nv = 1;
        pub.publish(nv++); pub.publish(nv++); pub.publish(nv++);             // 1 2 3, window {3,2}
        step(s, got, 2, pub, nv);                 // next #1: ready() -> position 2; publish(4), publish(5): window {5,4}; check_next() clamps to 4
        step(s, got, 0, pub, nv);                 // next #2: must NOT yield position 4 again
        bad |= check("race   skip_if_behind max=2, two publishes between  ", got);
    }
    return bad;
}
int main(int argc, char **argv) {
    const char *mode = argc > 1 ? argv[1] : "dup";
    int bad = 0;
    bad |= scenario_batch();
    bad |= scenario_race();
    if (!std::strcmp(mode, "awaited_skip")) {
        int a = scenario_skip(subscribtion_type::skip_to_recent, 10), b = scenario_skip(subscribtion_type::skip_if_behind, 10);
        if (a || b) bad |= 4;
    }
    if (!std::strcmp(mode, "blocking_skip")) { if (c16_blocking_scenario_steps(7)) bad |= 8; }
    if (bad) std::printf("VIOLATION (mask %d)\n", bad); else std::printf("ok: delivered positions strictly increase, position() names the delivered value\n");
    return bad ? 1 : 0;
}
