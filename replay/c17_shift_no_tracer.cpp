// C17 native replay: shared_future<T>::operator<<(Fn) ("same as result_of") never charges the resolve tracer.
//   Property clause: "The shared state stays alive until it has been resolved even if every handle is dropped while it is
//   still pending, and is then freed exactly once."
//   mode shift_drop_all : f.init_if_needed(); f << fn  (fn starts an operation and keeps the promise => the shared future is
//                         pending); a copy is taken; every handle is dropped; then the promise is resolved.
//                         Observation without touching freed memory: a std::weak_ptr to the shared state (taken with
//                         -fno-access-control) tells whether the state still exists.
//                         Real code: the state is destroyed and freed as soon as the last handle goes although the promise
//                         still points into it (exit 1; resolving it afterwards is a heap-use-after-free in future<int>::set,
//                         shown under ASan by mode shift_resolve_after_drop).
//                         Expected: state alive while pending (exit 0), gone after the resolution, stored value destroyed once.
//   mode shift_ready    : f << fn where fn returns an already resolved future: no extra reference may remain (no leak).
//   mode shift_resolve_after_drop : the same history as shift_drop_all, but the promise is really resolved after the handles
//                         are gone (what a user's program does): ASan reports heap-use-after-free on the unfixed library.
// build: g++ -std=c++20 -O1 -I/repo/src -fno-access-control -DNDEBUG -fsanitize=address -g c17_shift_no_tracer.cpp
//        (without -DNDEBUG the library's own assert "Destroy of pending future" aborts instead - also a non-zero exit)
// exit code 0 = behaves as specified; non-zero = violation.
#include <cocls/shared_future.h>
#include <cstdio>
#include <cstring>
#include <memory>
using namespace cocls;

struct Counted {                       // instance-counting payload: "no leak or double destruction of the stored value"
    static int alive, destroyed;
    int v;
    Counted(int x) : v(x) { ++alive; }
    Counted(const Counted &o) : v(o.v) { ++alive; }
    ~Counted() { --alive; ++destroyed; }
};
int Counted::alive = 0, Counted::destroyed = 0;

static int shift_drop_all(bool resolve_anyway) {
    promise<Counted> prom;
    std::weak_ptr<void> state;
    {
        shared_future<Counted> f;
        f.init_if_needed();                                        // documented initialisation of a default-constructed object
        f << [&]() -> future<Counted> { return [&](promise<Counted> p) { prom = std::move(p); }; };
        shared_future<Counted> g = f;                              // copies share the state
        state = g._ptr;
        if (g.ready()) { std::puts("FAIL: ready although the promise is outstanding"); return 2; }
        if (!g._ptr->pending()) { std::puts("FAIL: not pending after operator<< with a kept promise"); return 2; }
    }                                                              // every handle dropped while pending
    if (state.expired() && !resolve_anyway) {
        std::puts("FAIL: the shared state was destroyed and freed while its future is still pending (all handles dropped after operator<<): "
                  "the outstanding promise points into freed memory");
        prom.claim();                                              // do not touch the freed future from ~promise
        return 1;
    }
    if (resolve_anyway) {                                          // what a user's program does: no observer keeps the memory block
        bool gone = state.expired(); state.reset();                // (a weak_ptr would keep make_shared's block allocated)
        prom(42);                                                  // heap-use-after-free in future<T>::set if the state is gone
        std::printf("resolved after all handles were dropped; state had %s\n", gone ? "ALREADY BEEN FREED" : "been kept alive");
        return gone ? 1 : (Counted::alive != 0 ? 4 : 0);
    }
    prom(42);                                                      // resolution
    if (!state.expired()) { std::puts("FAIL: shared state leaked: still alive after resolution with no handle left"); return 3; }
    if (Counted::alive != 0) { std::printf("FAIL: stored value leaked or destroyed twice (alive=%d)\n", Counted::alive); return 4; }
    std::puts("OK: state kept alive while pending with no handle left, released once after the resolution");
    return 0;
}
static int shift_ready() {
    std::weak_ptr<void> state;
    {
        shared_future<Counted> f;
        f.init_if_needed();
        f << []() -> future<Counted> { return future<Counted>::set_value(7); };
        shared_future<Counted> g = f;
        state = g._ptr;
        if (!g.ready() || g.value().v != 7 || &g.value() != &f.value()) { std::puts("FAIL: copies do not observe the one result"); return 2; }
    }
    if (!state.expired()) { std::puts("FAIL: shared state leaked (extra reference although the future was resolved)"); return 3; }
    if (Counted::alive != 0) { std::printf("FAIL: stored value not destroyed exactly once (alive=%d)\n", Counted::alive); return 4; }
    std::puts("OK: operator<< with an already resolved future keeps no extra reference");
    return 0;
}
int main(int argc, char **argv) {
    const char *mode = argc > 1 ? argv[1] : "shift_drop_all";
    if (!std::strcmp(mode, "shift_ready")) return shift_ready();
    if (!std::strcmp(mode, "shift_resolve_after_drop")) return shift_drop_all(true);
    return shift_drop_all(false);
}
