// C13 observation (compile-time, no verification obligation can be attached): generator_iterator<G>::storage - the proxy returned by the
// postfix increment - declares   reference operator*() const { return _v; }   and   pointer operator->() const { return &_v; }
// with reference = value_type& and _v a plain member: inside a const member _v is const, so both bodies are ill-formed as soon as they
// are instantiated.  The canonical input-iterator expression `*it++` therefore does not compile:
//     g++ -std=c++20 -I/repo/src -fsyntax-only c13_iterator_storage_compile.cpp
//     error: binding reference of type 'int&' to 'const int' discards qualifiers        (iterator.h:53, and :56 for operator->)
// Proposed fix: specs/C13/fix_iterator_storage.diff (make the stored value mutable - the proxy owns a moved-out copy).
// With the fix this file compiles and prints 1 2 3.
#include <cocls/generator.h>
#include <cstdio>
using namespace cocls;
static generator<int> three() { co_yield 1; co_yield 2; co_yield 3; }
int main() {
    auto g = three();
    auto it = g.begin(), e = g.end();
    while (it != e) std::printf("%d ", *it++);
    std::puts("");
    return 0;
}
