// C15 open finding C15-FINDING-emit-in-coroutine (audit item D4) - deterministic native replay against the real headers.
//
// Property C15: "Each value passed to a signal's collector is delivered to every listener ... that is waiting at that moment - all of
// them, each exactly once, WITH THAT VALUE - and a listener that does nothing between signals except re-await the emitter MISSES NONE
// of them."
// What it shows: a released listener does not carry the value of the collector call that released it; it reads state::_cur_val when it
// eventually RUNS (emitter::await_resume).  On a plain thread discarding the returned suspend point runs the listeners at once.  Inside
// a coroutine (ready queue active) suspend_point::suspend_now() only QUEUES them; the emitting coroutine goes on, calls the collector
// again and (a) overwrites the value before any listener has looked at it, (b) finds nobody subscribed, so the later values are
// delivered to nobody, (c) with the lvalue overload the listener finally reads an object that may already be dead.
// Scenarios (every listener does nothing but `for(;;) { v = co_await e; record(v); }`):
//   S0 control  : the two emissions from a plain thread                                  -> {v1, v2} expected and observed
//   S1 drive    : drivers/c15_drive.cpp c15_drive_incoro (the scenario of the bounded drive units drive_incoro_*), by value / by lvalue
//   S2 README   : README.md "Signal" generator `for (i) c(i);` called from a cocls::async<void> coroutine (lvalue overload, loop variable)
//                 - values only COUNTED here (the object is dead when the listener reads it; S4 shows that part in a defined way)
//   S3 rvalue   : the same with c(i + 0) - the signal owns a copy, still one resumption for three emissions
//   S4 dead obj : signal<tracked>, lvalue overload, the emitted object is destroyed after the collector returned (its storage stays
//                 valid, so the read is observable without undefined behaviour of the replay itself): the listener receives a dead object
// Invocation by the runner: <exe> incoro [in_v1=..] [in_v2=..] [in_by_ref=0|1]   (values of the failing trace); stand-alone: no arguments.
// Build: g++ -std=c++20 -O1 -g -I/repo/src -I/verif/drivers -fsanitize=address,undefined replay/c15_emit_in_coroutine.cpp -lpthread
// Exit status: 0 = the property holds in every scenario, 1 = violated (values lost / wrong value / dead object), 2 = the control failed.
#define C15_NATIVE_REPLAY 1
#include "../drivers/c15_drive.cpp"
#include <cocls/async.h>
#include <cstdio>
#include <cstdlib>
#include <cstring>
#include <new>
#include <vector>
static int violations = 0;
static void show(const char *what, const std::vector<int> &got, const std::vector<int> &want) {
    std::printf("%-58s listener received:", what);
    for (int v : got) std::printf(" %d", v);
    std::printf("   (emitted:");
    for (int v : want) std::printf(" %d", v);
    std::printf(")\n");
}
static bool check_log(const char *what, int nlist, int v1, int v2) {
    bool ok = true;
    for (int i = 0; i < nlist; i++) {
        std::vector<int> got; for (int k = 0; k < g_log[i].n && k < 4; k++) got.push_back(g_log[i].vals[k]);
        show(what, got, {v1, v2});
        if (!(g_log[i].n == 2 && g_log[i].vals[0] == v1 && g_log[i].vals[1] == v2)) ok = false;
        if (!(g_log[i].canceled == 1 && g_log[i].done == 1 && g_log[i].other_exc == 0)) { std::printf("  listener %d: not released by the disconnect (canceled=%d done=%d)\n", i, g_log[i].canceled, g_log[i].done); ok = false; }
    }
    return ok;
}
// S2 / S3 (auditor's reproducer, README generator)
static cocls::async<void> listener(cocls::signal<int>::emitter e, std::vector<int> &got) {
    try { for (;;) { int v = co_await e; got.push_back(v); } } catch (const cocls::await_canceled_exception &) {}
}
static cocls::async<void> counting_listener(cocls::signal<int>::emitter e, int &n) {         // S2: does not look at the (dead) object
    try { for (;;) { co_await e; ++n; } } catch (const cocls::await_canceled_exception &) {}
}
static void generate(cocls::signal<int> &sig) { auto c = sig.get_collector(); for (int i = 1; i <= 3; i++) c(i); }       // README.md, section "Signal"
static cocls::async<void> producer_coro(cocls::signal<int> &sig) { generate(sig); co_return; }
static cocls::async<void> producer_coro_rv(cocls::signal<int> &sig) { auto c = sig.get_collector(); for (int i = 1; i <= 3; i++) c(i + 0); co_return; }
// S4: an object that knows whether it is alive
struct tracked { int v; int alive; };
alignas(tracked) static unsigned char tracked_store[sizeof(tracked)];
static cocls::async<void> tracked_listener(cocls::signal<tracked>::emitter e, std::vector<tracked> &got) {
    try { for (;;) { tracked &t = co_await e; got.push_back(t); } } catch (const cocls::await_canceled_exception &) {}
}
static cocls::async<void> tracked_producer(cocls::signal<tracked> &sig, int v) {
    auto c = sig.get_collector();
    tracked *t = new (tracked_store) tracked{v, 1};
    c(*t);                              // lvalue overload; signal.h: "Ensure that value remains valid until the all emitters are notified. This can be achieved by discarding the return value"
    t->alive = 0; t->v = -1;            // end of the object's life (storage kept, so the replay itself stays well defined)
    co_return;
}
int main(int argc, char **argv) {
    int v1 = 11, v2 = -7, by_ref = -1;
    for (int i = 1; i < argc; ++i) {
        if (!std::strncmp(argv[i], "in_v1=", 6)) v1 = std::atoi(argv[i] + 6);
        if (!std::strncmp(argv[i], "in_v2=", 6)) v2 = std::atoi(argv[i] + 6);
        if (!std::strncmp(argv[i], "in_by_ref=", 10)) by_ref = std::atoi(argv[i] + 10) != 0;
    }
    // S0 control: plain thread (existing drive scenario, 1 listener, callback stops after the first value)
    for (int br = 0; br <= 1; br++) {
        std::memset(g_log, 0, sizeof(g_log)); g_cb_limit = 1;
        c15_drive(1, v1, v2, br, 0);
        if (!check_log(br ? "S0 control, plain thread, 2nd by lvalue:" : "S0 control, plain thread, 2nd by value:", 1, v1, v2)) { std::printf("  CONTROL FAILED\n"); return 2; }
    }
    // S1: the bounded drive's scenario
    for (int nl = 1; nl <= 2; nl++) for (int br = 0; br <= 1; br++) {
        if (by_ref >= 0 && br != by_ref) continue;
        std::memset(g_log, 0, sizeof(g_log));
        c15_drive_incoro(nl, v1, v2, br);
        char what[96]; std::snprintf(what, sizeof what, "S1 emitted inside a coroutine, %s, %d listener(s):", br ? "lvalue overload" : "rvalue + by value", nl);
        if (!check_log(what, nl, v1, v2)) { ++violations; std::printf("  VIOLATION: a value emitted while the listener did nothing but re-await was not delivered / the resumption carried a later call's value\n"); }
        if (g_log[3].done != 1) { ++violations; std::printf("  producer did not run to its end exactly once (%d)\n", g_log[3].done); }
    }
    {   // S2
        cocls::signal<int> sig; int n = 0;
        counting_listener(sig.get_emitter(), n).detach();
        producer_coro(sig).detach();
        std::printf("%-58s listener resumed %d time(s)   (emitted: 1 2 3)\n", "S2 README generate() called from a coroutine (c(i)):", n);
        if (n != 3) { ++violations; std::printf("  VIOLATION: %d of 3 emissions reached the listener (and the one delivered refers to the dead loop variable)\n", n); }
    }
    {   // S3
        cocls::signal<int> sig; std::vector<int> got;
        listener(sig.get_emitter(), got).detach();
        producer_coro_rv(sig).detach();
        show("S3 c(i + 0) x3 inside a coroutine (owned copy):", got, {1, 2, 3});
        if (got != std::vector<int>{1, 2, 3}) { ++violations; std::printf("  VIOLATION: one resumption for three emissions, carrying the last value\n"); }
    }
    {   // S4
        cocls::signal<tracked> sig; std::vector<tracked> got;
        tracked_listener(sig.get_emitter(), got).detach();
        tracked_producer(sig, v1).detach();
        std::printf("%-58s", "S4 lvalue overload, object destroyed after the call:");
        if (got.size() == 1) std::printf(" listener received {v=%d alive=%d}   (emitted: {v=%d alive=1})\n", got[0].v, got[0].alive, v1); else std::printf(" listener resumed %zu times\n", got.size());
        if (!(got.size() == 1 && got[0].alive == 1 && got[0].v == v1)) { ++violations; std::printf("  VIOLATION: the listener was handed an object whose lifetime had ended (the collector's caller had discarded the suspend point as documented)\n"); }
    }
    std::printf("c15_emit_in_coroutine: %d violation(s)\n", violations);
    return violations ? 1 : 0;
}
