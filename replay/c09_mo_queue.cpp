// Native cross-check of the move-only contracts of C09 / C10 (specs/C09/qm_spec.h, specs/C10/lm_spec.h) and of the container / promise model
// lib/model_awq_mo.c: the same per-operation balances (tag, moved-from state, live instances, values that died) on the REAL std::queue / future code.
// Build: g++ -std=c++20 -I/repo/src -I/verif/drivers replay/c09_mo_queue.cpp ; exit status != 0 <=> the real code violates a clause.
#include <cocls/queue.h>
#include "c09_mo_item.h"
#include <cstdio>
using namespace cocls;
static int failures = 0;
#define EXPECT(cond, ...) do { if (!(cond)) { ++failures; std::printf("MISMATCH: " __VA_ARGS__); std::printf("   [%s]\n", #cond); } } while (0)
struct snap { unsigned live, dead; snap() : live(mo_item::live), dead(mo_item::dead_valued) {} };
int main() {
    {   // ---- queue<mo_item>
        snap s0;
        {
            queue<mo_item> q;
            mo_item a(1), b(2), c(3);
            { snap s; q.push(std::move(a)); EXPECT(a.moved_cnt == 1 && mo_item::live == s.live + 1 && mo_item::dead_valued == s.dead, "push stored: moved=%u live+%u\n", a.moved_cnt, mo_item::live - s.live); }
            { snap s; q.push(std::move(b)); EXPECT(b.moved_cnt == 1 && mo_item::live == s.live + 1 && mo_item::dead_valued == s.dead, "push stored 2\n"); }
            { snap s; future<mo_item> f = q.pop(); EXPECT(f.ready() && f.value().tag == 1 && f.value().moved_cnt == 0, "pop fast path: tag=%d\n", f.value().tag);
              EXPECT(mo_item::live == s.live && mo_item::dead_valued == s.dead, "pop fast path: live %u -> %u, died %u\n", s.live, mo_item::live, mo_item::dead_valued - s.dead); }
            { future<mo_item> f2 = q.pop(); EXPECT(f2.value().tag == 2, "second pop\n");
              snap s; future<mo_item> w = q.pop(); EXPECT(!w.ready() && mo_item::live == s.live, "pop parks\n");
              snap s2; q.push(std::move(c)); EXPECT(c.moved_cnt == 1 && mo_item::live == s2.live + 1 && mo_item::dead_valued == s2.dead, "push hand-over: moved=%u\n", c.moved_cnt);
              EXPECT(w.ready() && w.value().tag == 3 && w.value().moved_cnt == 0, "hand-over delivers the object intact: tag=%d\n", w.value().tag); }
            mo_item d(4), e(5); q.push(std::move(d)); q.push(std::move(e));
            snap s; (void)s;
        }   // q destroyed with 2 items inside; a..e husks destroyed
        EXPECT(mo_item::live == s0.live, "queue<mo_item>: live %u -> %u after everything is destroyed (leak / double destroy)\n", s0.live, mo_item::live);
        EXPECT(mo_item::dead_valued - s0.dead == 5, "queue<mo_item>: %u values died, expected 5 (3 in consumers' futures, 2 inside the destroyed queue)\n", mo_item::dead_valued - s0.dead);
    }
    {   // ---- limited_queue<mo_item>, limit 1
        snap s0;
        {
            limited_queue<mo_item> q(1);
            mo_item a(11), b(12), c(13);
            future<void> pa = q.push(std::move(a)); EXPECT(pa.ready(), "push with room completes\n");
            snap s; future<void> pb = q.push(std::move(b)); EXPECT(!pb.ready() && b.moved_cnt == 1 && mo_item::live == s.live + 1 && mo_item::dead_valued == s.dead, "blocked push holds its item: ready=%d moved=%u live+%u died %u\n", (int)pb.ready(), b.moved_cnt, mo_item::live - s.live, mo_item::dead_valued - s.dead);
            future<void> pc = q.push(std::move(c)); EXPECT(!pc.ready(), "second blocked push\n");
            { snap s2; future<mo_item> f = q.pop(); EXPECT(f.ready() && f.value().tag == 11 && f.value().moved_cnt == 0, "pop delivers head\n");
              EXPECT(pb.ready() && !pc.ready(), "exactly the oldest blocked push completes\n");
              EXPECT(mo_item::live == s2.live && mo_item::dead_valued == s2.dead, "pop with B->Q hand-over: live %u -> %u, died %u\n", s2.live, mo_item::live, mo_item::dead_valued - s2.dead); }
            { snap s3; bool r = q.unblock_push(std::make_exception_ptr(1)); EXPECT(r && mo_item::live == s3.live - 1 && mo_item::dead_valued == s3.dead + 1 && mo_item::last_dead_tag == 13, "unblock_push withdraws exactly its item: live %u -> %u died %u tag %d\n", s3.live, mo_item::live, mo_item::dead_valued - s3.dead, mo_item::last_dead_tag);
              try { pc.value(); EXPECT(false, "withdrawn push must fail\n"); } catch (int) {} }
            { future<mo_item> f = q.pop(); EXPECT(f.value().tag == 12 && f.value().moved_cnt == 0, "the held item arrives intact: tag=%d\n", f.value().tag); }
        }
        EXPECT(mo_item::live == s0.live, "limited_queue<mo_item>: live %u -> %u after everything is destroyed\n", s0.live, mo_item::live);
    }
    std::printf("c09_mo_queue native: %d mismatch(es)\n", failures);
    return failures ? 1 : 0;
}
