// C11 observation (units run_detached_ref / fn_life_ref): thread_pool::run_detached(fn) / run(fn) called with an LVALUE callable instantiate
// cocls::function<void()>::FnInstSmall<Job&> - the queued closure holds a REFERENCE to the caller's object, no decay-copy is made (unlike
// std::thread / std::async / std::function).  If the caller's object dies before a worker ran the closure, the worker calls a dangling reference.
// Build: g++ -std=c++20 -I/repo/src -pthread -g -fsanitize=address replay/c11_lvalue_job_dangling.cpp   (exit 0 = as documented here: reference semantics observed)
// mode "ref"      : deterministic, no UB - shows that the queued closure sees later modifications of the caller's object (prints/returns 3 if it does)
// mode "dangling" : the caller's object goes out of scope while the job is queued -> ASan: stack-use-after-scope / heap-use-after-free
#include <cocls/thread_pool.h>
#include <atomic>
#include <cstring>
#include <cstdio>
#include <memory>
#include <mutex>
#include <condition_variable>
using namespace cocls;
static std::atomic<long> seen{0};
struct Job { long id; void operator()() { seen = id; } };
static std::mutex mx; static std::condition_variable cv; static bool go = false, done = false;
int main(int argc, char **argv) {
    const char *mode = argc > 1 ? argv[1] : "ref";
    thread_pool pool(1);
    pool.run_detached([]{ std::unique_lock lk(mx); cv.wait(lk, []{ return go; }); });      // keep the only worker busy
    if (!std::strcmp(mode, "ref")) {
        Job j{1};
        pool.run_detached(j);                 // queued behind the blocker
        j.id = 2;                             // modified AFTER submission
        pool.run_detached([]{ std::unique_lock lk(mx); done = true; cv.notify_all(); });
        { std::unique_lock lk(mx); go = true; cv.notify_all(); cv.wait(lk, []{ return done; }); }
        std::printf("job submitted with id 1, ran with id %ld\n", seen.load());
        return seen == 2 ? 3 : 0;             // 3: the closure referenced the caller's object
    } else {
        {
            auto j = std::make_unique<Job>(Job{7});
            pool.run_detached(*j);            // lvalue: reference stored
        }                                     // object destroyed while the closure is queued
        pool.run_detached([]{ std::unique_lock lk(mx); done = true; cv.notify_all(); });
        { std::unique_lock lk(mx); go = true; cv.notify_all(); cv.wait(lk, []{ return done; }); }
        return 0;                             // ASan reports heap-use-after-free in Job::operator()
    }
}
