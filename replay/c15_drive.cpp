// Native run of the C15 bounded drive (drivers/c15_drive.cpp) against the real headers: the same scenario functions, the same oracle as
// specs/C15/h_drive.c, real g++ coroutines, real std::shared_ptr / std::deque.  Used (a) by the runner as the replay of a failed drive
// obligation ("<exe> C15 in_v1=.. in_v2=.. in_by_ref=.. nlist=.. late=.. lim=.."), (b) stand-alone over all shapes (no arguments).
// Build: g++ -std=c++20 -I/repo/src -I/verif/drivers replay/c15_drive.cpp ; exit status != 0 <=> the real code violates the oracle.
#define C15_NATIVE_REPLAY 1
#include "../drivers/c15_drive.cpp"
#include <cstdio>
#include <cstdlib>
#include <cstring>
#include <new>
static long n_new = 0, n_del = 0;
void *operator new(std::size_t n) { ++n_new; void *p = std::malloc(n ? n : 1); if (!p) std::abort(); return p; }
void operator delete(void *p) noexcept { if (p) { ++n_del; std::free(p); } }
void operator delete(void *p, std::size_t) noexcept { if (p) { ++n_del; std::free(p); } }
static int failures = 0;
#define EXPECT(cond, ...) do { if (!(cond)) { ++failures; std::printf("MISMATCH: " __VA_ARGS__); std::printf("   [%s]\n", #cond); } } while (0)
static void run(int nlist, int late, int lim, int by_ref, int v1, int v2) {
    std::memset(g_log, 0, sizeof(g_log)); g_cb_limit = lim;
    long a0 = n_new, f0 = n_del;
    c15_drive(nlist, v1, v2, by_ref, late);
    for (int i = 0; i < 3; i++) {
        if (i < nlist) {
            EXPECT(g_log[i].n == 2 && g_log[i].vals[0] == v1 && g_log[i].vals[1] == v2, "listener %d (nlist=%d late=%d lim=%d by_ref=%d): received n=%d {%d,%d}, expected {%d,%d}\n", i, nlist, late, lim, by_ref, g_log[i].n, g_log[i].vals[0], g_log[i].vals[1], v1, v2);
            EXPECT(g_log[i].canceled == 1 && g_log[i].done == 1 && g_log[i].other_exc == 0, "listener %d: canceled=%d done=%d other=%d after disconnect\n", i, g_log[i].canceled, g_log[i].done, g_log[i].other_exc);
        } else if (i == 2 && late) {
            EXPECT(g_log[i].n == 1 && g_log[i].vals[0] == v2, "late listener: n=%d first=%d, expected exactly {%d}\n", g_log[i].n, g_log[i].vals[0], v2);
            EXPECT(g_log[i].canceled == 1 && g_log[i].done == 1 && g_log[i].other_exc == 0, "late listener: canceled=%d done=%d\n", g_log[i].canceled, g_log[i].done);
        } else EXPECT(g_log[i].n == 0 && g_log[i].done == 0, "unused slot %d touched\n", i);
    }
    int expect = lim < 2 ? lim : 2;
    EXPECT(g_log[3].n == expect && g_log[3].vals[0] == v1 && (expect < 2 || g_log[3].vals[1] == v2), "callback (lim=%d): n=%d {%d,%d}\n", lim, g_log[3].n, g_log[3].vals[0], g_log[3].vals[1]);
    EXPECT(n_new - a0 == n_del - f0, "heap balance: %ld allocated, %ld released\n", n_new - a0, n_del - f0);
}
int main(int argc, char **argv) {
    int v1 = 11, v2 = -7, by_ref = -1, nlist = -1, late = -1, lim = -1;
    for (int i = 1; i < argc; ++i) {
        if (!std::strncmp(argv[i], "in_v1=", 6)) v1 = std::atoi(argv[i] + 6);
        if (!std::strncmp(argv[i], "in_v2=", 6)) v2 = std::atoi(argv[i] + 6);
        if (!std::strncmp(argv[i], "in_by_ref=", 10)) by_ref = std::atoi(argv[i] + 10) != 0;
        if (!std::strncmp(argv[i], "nlist=", 6)) nlist = std::atoi(argv[i] + 6);
        if (!std::strncmp(argv[i], "late=", 5)) late = std::atoi(argv[i] + 5);
        if (!std::strncmp(argv[i], "lim=", 4)) lim = std::atoi(argv[i] + 4);
    }
    run(1, 0, 1, 0, 1, 2); failures = 0;      // warm-up: the thread_local ready queue (std::deque) allocates on first use and keeps its blocks
    for (int nl = 1; nl <= 3; nl++) for (int lt = 0; lt <= (nl <= 2 ? 1 : 0); lt++) for (int lm = 1; lm <= 3; lm++) for (int br = 0; br <= 1; br++) {
        if ((nlist >= 0 && nl != nlist) || (late >= 0 && lt != late) || (lim >= 0 && lm != lim) || (by_ref >= 0 && br != by_ref)) continue;
        run(nl, lt, lm, br, v1, v2);
    }
    // awaiting a disconnected / never connected emitter
    std::memset(g_log, 0, sizeof(g_log));
    long a0 = n_new, f0 = n_del;
    c15_drive_disconnected();
    EXPECT(g_log[0].n == 0 && g_log[0].canceled == 1 && g_log[0].done == 1, "disconnected emitter: n=%d canceled=%d done=%d\n", g_log[0].n, g_log[0].canceled, g_log[0].done);
    EXPECT(g_log[1].n == 0 && g_log[1].canceled == 1 && g_log[1].done == 1, "never connected emitter: n=%d canceled=%d done=%d\n", g_log[1].n, g_log[1].canceled, g_log[1].done);
    EXPECT(n_new - a0 == n_del - f0, "heap balance (disconnected): %ld / %ld\n", n_new - a0, n_del - f0);
    std::printf("c15_drive native: %d mismatch(es)\n", failures);
    return failures ? 1 : 0;
}
