// Native run of the signal<void> bounded drive (drivers/c15_drive.cpp, c15_drive_void) against the real headers: same scenario, same oracle as
// specs/C15/h_drive.c (DRIVE_void).  Build: g++ -std=c++20 -I/repo/src -I/verif/drivers replay/c15_void_drive.cpp ; exit != 0 <=> oracle violated.
#define C15_NATIVE_REPLAY 1
#include "../drivers/c15_drive.cpp"
#include <cstdio>
#include <cstdlib>
#include <cstring>
#include <new>
static long n_new = 0, n_del = 0;
void *operator new(std::size_t n) { ++n_new; void *p = std::malloc(n ? n : 1); if (!p) std::abort(); return p; }
void operator delete(void *p) noexcept { if (p) { ++n_del; std::free(p); } }
void operator delete(void *p, std::size_t) noexcept { if (p) { ++n_del; std::free(p); } }
static int failures = 0;
#define EXPECT(cond, ...) do { if (!(cond)) { ++failures; std::printf("MISMATCH: " __VA_ARGS__); std::printf("   [%s]\n", #cond); } } while (0)
int main() {
    std::memset(g_log, 0, sizeof(g_log)); g_cb_limit = 3; c15_drive_void(1, 0);          // warm-up (thread_local ready queue)
    for (int nlist = 1; nlist <= 3; nlist++) for (int late = 0; late <= (nlist < 3 ? 1 : 0); late++) for (int lim = 1; lim <= 3; lim++) {
        std::memset(g_log, 0, sizeof(g_log)); g_cb_limit = lim;
        long a0 = n_new, f0 = n_del;
        c15_drive_void(nlist, late);
        for (int i = 0; i < 3; i++) {
            if (i < nlist) { EXPECT(g_log[i].n == 2, "listener %d (nlist=%d late=%d lim=%d): resumed %d time(s) by 2 emissions\n", i, nlist, late, lim, g_log[i].n);
                             EXPECT(g_log[i].canceled == 1 && g_log[i].done == 1 && g_log[i].other_exc == 0, "listener %d: canceled=%d done=%d\n", i, g_log[i].canceled, g_log[i].done); }
            else if (i == 2 && late) { EXPECT(g_log[i].n == 1, "late listener resumed %d time(s)\n", g_log[i].n); EXPECT(g_log[i].canceled == 1 && g_log[i].done == 1, "late listener not released\n"); }
            else EXPECT(g_log[i].n == 0 && g_log[i].done == 0, "unused slot %d touched\n", i);
        }
        EXPECT(g_log[3].n == (lim < 2 ? lim : 2), "callback called %d time(s), limit %d\n", g_log[3].n, lim);
        EXPECT(n_new - a0 == n_del - f0, "%ld allocated, %ld released\n", n_new - a0, n_del - f0);
    }
    std::printf("c15_void_drive native: %d mismatch(es)\n", failures);
    return failures ? 1 : 0;
}
