// C13 candidate finding "postinc-moves": generator_iterator::operator++(int) builds the handed-out storage by MOVING from the
// generator's item - i.e. from the body's own object when the body yields an lvalue it keeps using.  The sequence the consumer
// observes then depends on the access style: range-for / prefix ++ see what the body script yields, it++ empties the body's object
// and sees something else.  Property C13: "exactly the sequence of values the generator body yields ... whichever access style it
// uses or mixes".
// build: g++ -std=c++20 -I/repo/src c13_postinc_moves.cpp ; exit 0 = both styles observe the same sequence, 3 = they differ
#include <cocls/generator.h>
#include <string>
#include <cstdio>
using namespace cocls;
static generator<std::string> body() { std::string s; for (char c = 'a'; c < 'e'; c++) { s += c; co_yield s; } }
int main(int, char **) {
    std::string by_range, by_postfix;
    { auto g = body(); for (auto &v : g) { by_range += v; by_range += ' '; } }
    { auto g = body(); auto it = g.begin(); auto e = g.end(); while (!(it == e)) { auto s = it++; by_postfix += s._v; by_postfix += ' '; } }
    std::printf("range-for : %s\nit++      : %s\n", by_range.c_str(), by_postfix.c_str());
    if (by_range != by_postfix) { std::printf("MISMATCH: the access style changed what the body yields\n"); return 3; }
    std::printf("OK\n"); return 0;
}
