// C05 native replay (open finding C05-FINDING-nested-queue), library-only path: scheduler::start(awaitable) called from a running coroutine
// (documented: 'You can also start scheduler recursively') goes through install_queue_and_call and drains the caller's ready queue.
// exit 0 = holds, 1 = violation.  build: g++ -std=c++20 -O1 -g -pthread -I/repo/src
// C05, library-only path to the nested queue: scheduler::start(awt) ("You can also start scheduler recursively") called by a running
// coroutine -> coro_queue::install_queue_and_call on the SAME thread-local queue -> the caller's ready queue is flushed under it.
// exit 0 = property holds, 1 = violation
#include <cocls/async.h>
#include <cocls/future.h>
#include <cocls/scheduler.h>
#include <cstdio>
using namespace cocls;
static bool A_running = false, preempted = false;
async<void> B(future<int> &f) { co_await f; if (A_running) { preempted = true; std::puts("B resumed while A is still running"); } }
async<void> A(scheduler &sch) {
    A_running = true;
    future<int> f; promise<int> p = f.get_promise();
    B(f).detach(); co_await cocls::pause();
    p(42);                                            // B ready, suspend point discarded
    std::puts("A: B queued, A sleeps synchronously through scheduler::start()");
    sch.start(sch.sleep_for(std::chrono::milliseconds(5)));
    std::puts("A: continues");
    A_running = false; co_return;
}
int main() { scheduler sch; A(sch).join(); if (preempted) { std::puts("VIOLATION"); return 1; } std::puts("ok"); return 0; }
