// Native run of the C18 move-only drive (drivers/c18_drive.cpp, c18_drive_mo) against the real headers: same scenario function, same oracle as
// specs/C18/h_drive.c (DRIVE_cbawait_mo), real g++ coroutines.  Runner: "<exe> C18MO in_v=.. in_e=.. in_outcome=.."; stand-alone: all shapes.
// Build: g++ -std=c++20 -I/repo/src -I/verif/drivers replay/c18_mo_drive.cpp ; exit status != 0 <=> the real code violates the oracle.
#include "../drivers/c18_drive.cpp"
#include <cstdio>
#include <cstdlib>
#include <cstring>
#include <new>
static long n_new = 0, n_del = 0;
void *operator new(std::size_t n) { ++n_new; void *p = std::malloc(n ? n : 1); if (!p) std::abort(); return p; }
void operator delete(void *p) noexcept { if (p) { ++n_del; std::free(p); } }
void operator delete(void *p, std::size_t) noexcept { if (p) { ++n_del; std::free(p); } }
extern "C" void c18_probe(int) {}
static int failures = 0;
#define EXPECT(cond, ...) do { if (!(cond)) { ++failures; std::printf("MISMATCH: " __VA_ARGS__); std::printf("   [%s]\n", #cond); } } while (0)
int main(int argc, char **argv) {
    int v = 42, e = 7, only_outcome = -1;
    for (int i = 1; i < argc; ++i) {
        if (!std::strncmp(argv[i], "in_v=", 5)) v = std::atoi(argv[i] + 5);
        if (!std::strncmp(argv[i], "in_e=", 5)) e = std::atoi(argv[i] + 5);
        if (!std::strncmp(argv[i], "in_outcome=", 11)) only_outcome = std::atoi(argv[i] + 11);
    }
    if (v < 0) v = -(v + 1);
    std::memset(&g_mrec, 0, sizeof(g_mrec)); c18_drive_mo(0, 0, 0, 1, 1);       // warm-up: the thread_local ready queue allocates on first use
    for (int outcome = 0; outcome <= 2; outcome++) {
        if (only_outcome >= 0 && outcome != only_outcome) continue;
        for (int before = 0; before <= 1; before++) for (int take = 0; take <= 1; take++) {
            std::memset(&g_mrec, 0, sizeof(g_mrec));
            long a0 = n_new, f0 = n_del; unsigned l0 = mo_item::live, d0 = mo_item::dead_valued;
            c18_drive_mo(outcome, before, take, v, e);
            EXPECT(g_mrec.calls == 1, "callback_await<mo_item>(outcome=%d before=%d take=%d): callback ran %d time(s)\n", outcome, before, take, g_mrec.calls);
            EXPECT(g_mrec.calls_at_return == (before ? 1 : 0), "%d call(s) at return\n", g_mrec.calls_at_return);
            if (outcome == 0) EXPECT(g_mrec.has_value == 1 && g_mrec.tag == v && g_mrec.moved == 0, "value object seen: tag=%d moved=%u\n", g_mrec.tag, g_mrec.moved);
            if (outcome == 0 && take) EXPECT(g_mrec.took_tag == v && g_mrec.took_moved == 0, "moved-out object: tag=%d moved=%u\n", g_mrec.took_tag, g_mrec.took_moved);
            if (outcome == 1) EXPECT(g_mrec.has_value == 0 && g_mrec.exc_error == 1 && g_mrec.exc_code == e, "exception outcome: err=%d code=%d\n", g_mrec.exc_error, g_mrec.exc_code);
            if (outcome == 2) EXPECT(g_mrec.has_value == 0 && g_mrec.exc_canceled == 1, "drop: canceled=%d\n", g_mrec.exc_canceled);
            EXPECT(n_new - a0 == 1 && n_del - f0 == 1, "%ld block(s) allocated, %ld released\n", n_new - a0, n_del - f0);
            EXPECT(mo_item::live == l0, "live instances %u -> %u\n", l0, mo_item::live);
            if (outcome == 0) EXPECT(mo_item::dead_valued - d0 == 1 && mo_item::last_dead_tag == v, "%u value(s) died, last tag %d\n", mo_item::dead_valued - d0, mo_item::last_dead_tag);
            else EXPECT(mo_item::dead_valued == d0, "%u value(s) died without a value outcome\n", mo_item::dead_valued - d0);
        }
    }
    std::printf("c18_mo_drive native: %d mismatch(es)\n", failures);
    return failures ? 1 : 0;
}
