// C06: "Every ready coroutine handed to a suspend point ... through ... merging (<< and move-assignment) ... in any order - is resumed
// exactly once: none is dropped".  sp = std::move(sp) / sp << std::move(sp) (other aliases *this) drops every handle: the loop re-adds
// the handles and then `other._count_flag = 0` (and, heap case, delete[] of the live block) wipes the target itself.
// exit 0 = holds, 1 = violation.   usage: c06_self_merge [n]
#include <cocls/async.h>
#include <cocls/future.h>
#include <cstdio>
#include <cstdlib>
using namespace cocls;
static int runs = 0;
async<void> W() { ++runs; co_return; }
int main(int argc, char **argv) {
    int bad = 0;
    for (int n = 1; n <= 8; ++n) for (int mode = 0; mode < 2; ++mode) {
        runs = 0;
        {
            suspend_point<void> sp;
            for (int i = 0; i < n; ++i) sp << W().detach();
            suspend_point<void> &alias = sp;
            if (mode == 0) sp = std::move(alias); else sp << std::move(alias);
            std::printf("n=%d %s: size after = %zu", n, mode ? "sp << move(sp)" : "sp = move(sp) ", sp.size());
        }   // destructor must resume what remains
        std::printf(", resumed %d of %d%s\n", runs, n, runs == n ? "" : "  <-- LOST (frames leaked too)");
        if (runs != n) bad = 1;
    }
    return bad;
}
