// Native replay for the C03 obligation "the exchange that marks the future ready must have release semantics":
// one thread resolves a promise with a value, another polls ready() and then reads the value.  With the ready marker swung by
// an acquire-only exchange, the payload written by future::set() is never released: ThreadSanitizer reports the race between
// future<T>::set (writer) and future<T>::value (reader).  Build: clang++-14 -std=c++20 -fsanitize=thread -O1 -g -I<repo>/src.
// Exit code 66 (TSan's default) when a race is reported, 0 otherwise.
#include <cocls/future.h>
#include <thread>
#include <cstdio>
#include <string>
using namespace cocls;
int main(int argc, char **argv) {
    int rounds = 200;
    long sum = 0;
    for (int i = 0; i < rounds; i++) {
        future<std::string> f;
        auto p = f.get_promise();
        std::thread t([p = std::move(p)]() mutable { p(std::string(64, 'x')); });
        while (!f.ready()) { }
        sum += (long)f.value().size();
        t.join();
    }
    std::printf("rounds=%d sum=%ld\n", rounds, sum);
    return sum == 64L * rounds ? 0 : 1;
}
