// C12 replay (c): the stop callback of scheduler::interval() locks _mx and then calls cancel() -> remove(), which locks _mx again.
//   g++ -std=c++20 -I<repo>/src -fno-access-control -D_GLIBCXX_ASSERTIONS c12_interval_stop.cpp -lpthread
// Manual mode.  The interval generator is started (its first sleep is scheduled), then the stop token is triggered from a helper thread.
// Property C12: cancellation through a stop token completes the pending sleep and does not hang.
// exit 0 = request_stop() returned and the pending tick was cancelled; exit 1 = request_stop() did not return within 3 s (self-deadlock).
#include <cocls/scheduler.h>
#include <atomic>
#include <cstdio>
#include <thread>
#include <unistd.h>
using namespace cocls;
int c12_interval_stop_run() {
    static scheduler sch;                       // static: never destroyed if we have to bail out of a hang
    static std::stop_source src;
    static std::atomic<int> done{0};
    auto gen = new generator<std::size_t>(sch.interval(std::chrono::seconds(3600), src.get_token()));
    auto tick = new future<std::size_t>((*gen)());     // runs the generator up to co_await waiter: one sleep is scheduled with the generator's tag
    size_t pending = sch._scheduled.size();
    printf("pending sleeps after starting the interval generator: %zu, tick ready=%d\n", pending, (int)tick->ready());
    if (pending != 1 || tick->ready()) { printf("unexpected set-up\n"); return 2; }
    std::thread t([] { src.request_stop(); done.store(1); });
    for (int i = 0; i < 300 && !done.load(); i++) usleep(10000);
    if (!done.load()) {
        printf("FAIL: std::stop_source::request_stop() has not returned after 3 s - the stop callback deadlocks on scheduler::_mx\n");
        fflush(stdout); _exit(1);
    }
    t.join();
    bool live_left = false;
    for (auto &it : sch._scheduled) if (it._p) live_left = true;
    printf("request_stop() returned; live sleeps left=%d tick ready=%d generator done=%d\n", (int)live_left, (int)tick->ready(), (int)gen->done());
    if (live_left) { printf("FAIL: the pending sleep was not cancelled\n"); return 1; }
    delete tick; delete gen;
    return 0;
}
#ifndef C12_NO_MAIN
int main(int, char **) { return c12_interval_stop_run(); }
#endif
