// C16 observation (W2), not an obligation of the property as stated (the quantifier does not include copying a PUBLISHER):
// publisher<T> declares a destructor but no copy/move members, so the implicit copy constructor copies the shared_ptr<queue>, and
// ~publisher() of ANY copy closes the queue that the other copies still publish to.  A subscriber blocked in next() is then handed
// end-of-stream although a publisher handle is alive and keeps publishing ("closing or destroying THE publisher" - which one?).
// exit 0: no surprise; exit 3: end-of-stream reported while a publisher handle is still alive and open from the caller's point of view.
#include <cocls/publisher.h>
#include <cstdio>
using namespace cocls;
int main(int argc, char **argv) {
    publisher<int> a;
    subscriber<int> s(a);
    { publisher<int> b = a; }                 // a temporary copy (e.g. passed by value to a helper) goes away
    bool more = s.next();                     // blocking form: would wait for the next publish of `a` ...
    std::printf("next() after a COPY of the publisher was destroyed: %s\n", more ? "value" : "end-of-stream");
    a.publish(7);                             // ... which is still possible
    return more ? 0 : 3;
}
