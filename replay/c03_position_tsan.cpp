// TSan replay for the C03 obligation "publisher queue::position() reads the registration vector without the queue mutex":
// one thread polls subscriber::position() while another creates subscribers (subscribe reallocates the vector under the lock).
#include <cocls/publisher.h>
#include <thread>
#include <vector>
#include <atomic>
#include <cstdio>
using namespace cocls;
int main() {
    publisher<int> pub;
    subscriber<int> first(pub);
    std::atomic<bool> stop{false};
    std::size_t sink = 0;
    std::thread reader([&] { while (!stop.load(std::memory_order_relaxed)) sink += first.position(); });
    {
        std::vector<subscriber<int>> subs;
        for (int i = 0; i < 2000; i++) subs.emplace_back(pub);      // grows (reallocates) the registration vector under the lock
    }
    stop = true; reader.join();
    std::printf("done %zu\n", sink);
    return 0;
}
