// C14 native replay: exceptions of the sources of a generator_aggregator.
//
// Property C14: "... A source's exception does not lose the other sources' values and is reported to the consumer ...".
//
// mode two_throwers   (audit item D4, OPEN known finding C14-FINDING-two-throwers)
//   Two (three) sources throw, each an exception of its own.  Per-source oracle: every throwing source's exception is reported to the
//   consumer exactly once, and no value of any source is lost.  The unchanged aggregator keeps one std::exception_ptr and overwrites
//   it on every caught exception (generator_aggregator.h: `exp = std::current_exception();`), so only the exception caught LAST reaches
//   the consumer - the others vanish silently.  (A generator can deliver a single exception, at its end, so a repair needs a design
//   decision: collect / nest the exceptions, or report each at its position.)
// mode after_exception   (audit item W1, C13 clause seen through the aggregate)
//   One source throws.  After its exception has been reported the aggregate is finished: done() must be true, operator bool false, and
//   a consumer that goes on must get the end indication (next() -> false), not no_more_values_exception.  Fixed by
//   specs/C13/fix_after_exception.diff (generator.h).
//
// build:  g++ -std=c++20 -O1 -g -I/repo/src replay/c14_two_throwers.cpp -o /tmp/c14_two_throwers -lpthread
// run:    /tmp/c14_two_throwers two_throwers | after_exception
// exit 0 = the clause holds; 1 = violated (details on stdout); 2 = hang (SIGALRM after 5 s).
#include <cocls/generator_aggregator.h>
#include <cstdio>
#include <cstring>
#include <csignal>
#include <unistd.h>
#include <vector>
using namespace cocls;

static generator<int> vals(int base, int n) { for (int i = 0; i < n; i++) co_yield base + i; }
static generator<int> thrower(int base, int n, int e) { for (int i = 0; i < n; i++) co_yield base + i; throw e; }

struct Seen { std::vector<int> values, excs; int ends = 0, nmv = 0, other = 0; int fin_done = -1, fin_bool = -1; };
// the consumer goes on after every exception; it stops at the end indication, at no_more_values_exception or after `steps` steps
static Seen consume(generator<int> &agg, int style, int steps) {
    Seen s; int r = 1;
    for (int i = 0; i < steps && (r == 1 || r == -1); i++) {
        try {
            if (style == 0) { if (!agg.next()) r = 0; else { s.values.push_back(agg.value()); r = 1; } }
            else { future<int> f = agg(); if (!f.has_value()) r = 0; else { s.values.push_back(*f); r = 1; } }
        }
        catch (int e) { s.excs.push_back(e); r = -1; }
        catch (const no_more_values_exception &) { s.nmv++; r = -2; }
        catch (...) { s.other++; r = -3; }
    }
    if (r == 0) s.ends++;
    s.fin_done = agg.done() ? 1 : 0; s.fin_bool = agg ? 1 : 0;
    return s;
}
static int count(const std::vector<int> &v, int x) { int c = 0; for (int y : v) if (y == x) c++; return c; }

struct Src { int base, n, e; };      // e == 0: regular source
static int scenario(const char *name, const std::vector<Src> &srcs, int style, bool check_per_source, bool check_after) {
    std::vector<generator<int> > g; int total = 0, throwers = 0;
    for (auto &s : srcs) { g.push_back(s.e ? thrower(s.base, s.n, s.e) : vals(s.base, s.n)); total += s.n; throwers += s.e != 0; }
    auto agg = generator_aggregator(std::move(g));
    Seen seen = consume(agg, style, total + throwers + 1);
    int bad = 0;
    std::printf("%s (%s): %zu values, %zu exceptions, end %d x, no_more_values %d x, done()=%d bool=%d\n", name, style ? "call-to-future" : "next()/value()",
                seen.values.size(), seen.excs.size(), seen.ends, seen.nmv, seen.fin_done, seen.fin_bool);
    for (auto &s : srcs) {
        int prev = -1;
        for (int i = 0; i < s.n; i++) {
            if (count(seen.values, s.base + i) != 1) { std::printf("  value %d of a source observed %d x (expected once)\n", s.base + i, count(seen.values, s.base + i)); bad = 1; }
            int pos = -1; for (size_t p = 0; p < seen.values.size(); p++) if (seen.values[p] == s.base + i) pos = (int)p;
            if (pos < prev) { std::printf("  source order broken at value %d\n", s.base + i); bad = 1; } prev = pos;
        }
    }
    if ((int)seen.values.size() != total || seen.other) { std::printf("  %zu values observed, %d yielded; foreign exceptions %d\n", seen.values.size(), total, seen.other); bad = 1; }
    if (check_per_source) for (auto &s : srcs) if (s.e && count(seen.excs, s.e) != 1) {
        std::printf("  the exception %d of the source starting at %d was reported %d x (expected exactly once)\n", s.e, s.base, count(seen.excs, s.e)); bad = 1; }
    if (check_after) {
        bool end_ok = style == 0 ? (seen.ends == 1 && seen.nmv == 0) : (seen.ends + seen.nmv == 1);
        if (!(seen.fin_done == 1 && seen.fin_bool == 0 && end_ok)) { std::printf("  after the last value / exception the aggregate must be finished and give one end indication: done()=%d bool=%d end %d x no_more_values %d x\n", seen.fin_done, seen.fin_bool, seen.ends, seen.nmv); bad = 1; }
    }
    return bad;
}
int main(int argc, char **argv) {
    const char *mode = argc > 1 ? argv[1] : "two_throwers";
    signal(SIGALRM, [](int) { const char m[] = "HANG (SIGALRM after 5 s)\n"; (void)!write(1, m, sizeof m - 1); _exit(2); });
    alarm(5);
    int bad = 0;
    if (!std::strcmp(mode, "two_throwers")) {
        bad |= scenario("two throwers (t1,t1)", {{100, 1, 7001}, {200, 1, 7002}}, 0, true, false);
        bad |= scenario("two throwers (t0,t2)", {{100, 0, 7001}, {200, 2, 7002}}, 0, true, false);
        bad |= scenario("two throwers (t1,t0)", {{100, 1, 7001}, {200, 0, 7002}}, 1, true, false);
        bad |= scenario("two throwers + regular (t1,t2,2)", {{100, 1, 7001}, {200, 2, 7002}, {300, 2, 0}}, 0, true, false);
        bad |= scenario("three throwers (t1,t0,t1)", {{100, 1, 7001}, {200, 0, 7002}, {300, 1, 7003}}, 0, true, false);
        std::printf(bad ? "C14 per-source exception clause VIOLATED: only the exception caught last reaches the consumer\n" : "C14 per-source exception clause holds\n");
    } else {
        bad |= scenario("one thrower (t1)", {{100, 1, 7001}}, 0, true, true);
        bad |= scenario("one thrower + regular (t1,2)", {{100, 1, 7001}, {200, 2, 0}}, 0, true, true);
        bad |= scenario("regular + thrower (2,t0)", {{100, 2, 0}, {200, 0, 7002}}, 0, true, true);
        bad |= scenario("one thrower + regular (t1,1)", {{100, 1, 7001}, {200, 1, 0}}, 1, true, true);
        bad |= scenario("regular only (1,1)", {{100, 1, 0}, {200, 1, 0}}, 0, true, true);
        std::printf(bad ? "C14/C13 after-exception clause VIOLATED on the aggregate\n" : "C14/C13 after-exception clause holds on the aggregate\n");
    }
    return bad;
}
