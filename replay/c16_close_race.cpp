// C16 native replay: close() landing between the lock-atomic steps ready() and subscribe() of `co_await sub.next()`.
// The three steps of the co_await protocol (await_ready -> await_suspend -> await_resume) are three separate critical
// sections of queue::_mx; here they are called one by one (-fno-access-control) with the interfering operation of the
// "other thread" executed in between - a legal interleaving of the real multi-threaded program.
// Build: g++ -std=c++20 -I/repo/src -fno-access-control c16_close_race.cpp -lpthread
// Usage: c16_close_race [mode] [name=value ...]   modes: all_values (default) | skip (both skipping modes; needs -D_GLIBCXX_ASSERTIONS to
//        turn the out-of-range access on the empty deque into an abort).  name=value arguments supplied by tools/replay.py are
//        accepted; only in_value is used - the scenario is input independent, any published value shows it.
// Exit 0: the subscriber reported end-of-stream (correct).  Exit 1: it reported a value it had already consumed (same position).
// Abort (SIGABRT, exit != 0) in mode skip: get_value_lk indexed the EMPTY deque (_q[0] / _q[size()-1]).
#include <cocls/publisher.h>
#include <cstdio>
#include <cstring>
using namespace cocls;

static int scenario_close_between_ready_and_subscribe(int v) {
    publisher<int> pub;
    subscriber<int> sub(pub);
    pub.publish(v);
    bool r1 = sub.next();                 // consumes position 1 (value v)
    std::size_t p1 = sub.position();
    int v1 = sub.value();
    // --- co_await sub.next() decomposed ---
    bool rdy = sub.ready();               // step 1 (lock): nothing new, not closed -> false
    pub.close();                          // other thread: close() in the window
    sync_awaiter awt;
    bool susp = sub.subscribe(&awt);      // step 2 (lock): closed -> "do not suspend"
    bool r2 = sub.check_next();           // step 3 (lock): await_resume()
    std::size_t p2 = sub.position();
    std::printf("first next=%d pos=%zu value=%d | ready=%d suspended=%d next2=%d pos=%zu", r1, p1, v1, rdy, susp, r2, p2);
    if (r2) std::printf(" value=%d", sub.value());
    std::printf("\n");
    if (!r1 || v1 != v) { std::printf("unexpected: first next() failed\n"); return 2; }
    if (r2) {
        std::printf("DEFECT: after close() the subscriber got %s instead of end-of-stream\n",
                    p2 == p1 ? "the item it had already consumed (duplicate, same position)" : "a value");
        return 1;
    }
    std::printf("ok: end-of-stream reported\n");
    return 0;
}

// control: the same steps without the interfering close() must park the subscriber; close() then wakes it and it sees EOF
static int scenario_control(int v) {
    publisher<int> pub;
    subscriber<int> sub(pub);
    pub.publish(v);
    bool r1 = sub.next();
    bool rdy = sub.ready();
    sync_awaiter awt;
    bool susp = sub.subscribe(&awt);
    pub.close();
    bool woken = awt.flag.load();
    bool r2 = sub.check_next();
    std::printf("control: next=%d ready=%d suspended=%d woken_by_close=%d next2=%d\n", r1, rdy, susp, woken, r2);
    return (r1 && !rdy && susp && woken && !r2) ? 0 : 3;
}

// skipping modes: the same window.  (a) after one consumed item: the item is delivered again at an unchanged position
// ("positions strictly increase" violated); (b) nothing published yet: get_value_lk indexes the empty deque (undefined behaviour).
static int scenario_skip(subscribtion_type t, int v) {
    int bad = 0;
    {
        publisher<int> pub; subscriber<int> sub(pub, t);
        pub.publish(v);
        bool r1 = sub.next(); std::size_t p1 = sub.position();
        bool rdy = sub.ready(); pub.close(); sync_awaiter awt; bool susp = sub.subscribe(&awt); bool r2 = sub.check_next();
        std::size_t p2 = sub.position();
        std::printf("mode %d: next=%d pos=%zu | ready=%d suspended=%d next2=%d pos=%zu\n", (int)t, r1, p1, rdy, susp, r2, p2);
        if (r2 && p2 <= p1) { std::printf("DEFECT: a value was delivered without moving forward (position %zu again)\n", p2); bad = 1; }
    }
    {
        publisher<int> pub; subscriber<int> sub(pub, t);
        bool rdy = sub.ready(); pub.close(); sync_awaiter awt; bool susp = sub.subscribe(&awt);
        std::printf("mode %d, nothing published: ready=%d suspended=%d, now check_next() ...\n", (int)t, rdy, susp); std::fflush(stdout);
        bool r2 = sub.check_next();          // unfixed: _q[0] resp. _q[size()-1] on an EMPTY deque
        std::printf("  next=%d\n", r2);
        if (r2) { std::printf("DEFECT: a value was delivered though nothing was ever published\n"); bad = 1; }
    }
    return bad;
}

int main(int argc, char **argv) {
    int v = 10;
    if (argc > 1 && !std::strcmp(argv[1], "skip")) {
        for (int i = 2; i < argc; i++) if (!std::strncmp(argv[i], "in_value=", 9)) v = std::atoi(argv[i] + 9);
        int a = scenario_skip(subscribtion_type::skip_to_recent, v);
        int b = scenario_skip(subscribtion_type::skip_if_behind, v);
        return (a || b) ? 1 : 0;
    }
    for (int i = 1; i < argc; i++) if (!std::strncmp(argv[i], "in_value=", 9)) v = std::atoi(argv[i] + 9);
    int c = scenario_control(v);
    if (c) { std::printf("control scenario failed (%d)\n", c); return c; }
    return scenario_close_between_ready_and_subscribe(v);
}
