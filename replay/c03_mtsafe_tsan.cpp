// TSan replay for the C03 obligations on reusable_storage_mtsafe: the busy flag is exchanged / cleared with memory_order_relaxed, so
// handing the block from one thread to the next publishes neither the frame bytes nor _ptr/_capacity; dealloc() additionally reads
// _ptr without holding the block.  Two threads alternately allocate a frame, write it, and release it.
// Build: clang++-14 -std=c++20 -fsanitize=thread -O1 -g -I<repo>/src.  TSan exit code 66 when a race is reported.
#include <cocls/future.h>
#include <cocls/coro_storage.h>
#include <thread>
#include <cstring>
#include <cstdio>
using namespace cocls;
int main(int argc, char **argv) {
    const char *mode = argc > 1 ? argv[1] : "handover";
    reusable_storage_mtsafe st;
    auto work = [&](int id, std::size_t base) {
        for (int i = 0; i < 20000; i++) {
            std::size_t sz = base + (std::strcmp(mode, "grow") == 0 ? (i % 7) * 16 : 0);
            void *p = st.alloc(sz);
            std::memset(p, id, sz);                  // the frame's bytes
            reusable_storage_mtsafe::dealloc(p, sz);
        }
    };
    if (std::strcmp(mode, "fallback") == 0) {
        // three threads with growing sizes and frames held across a yield: heap-fallback frames are released (dealloc reads _ptr)
        // while another thread that owns the block replaces it in alloc() (writes _ptr)
        auto work2 = [&](int id) {
            for (int i = 0; i < 20000; i++) {
                std::size_t sz = 32 + ((i * 7 + id * 13) % 64) * 16;
                void *p = st.alloc(sz);
                std::memset(p, id, sz);
                std::this_thread::yield();
                reusable_storage_mtsafe::dealloc(p, sz);
            }
        };
        std::thread a(work2, 1), b(work2, 2), c(work2, 3);
        a.join(); b.join(); c.join();
        std::puts("done");
        return 0;
    }
    std::thread a(work, 1, 64), b(work, 2, 64);
    a.join(); b.join();
    std::puts("done");
    return 0;
}
