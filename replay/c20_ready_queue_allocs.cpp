// Native confirmation of the open C20 finding: in coroutine mode every made-ready coroutine goes through the thread's ready queue, a
// std::deque, which allocates a node every 64 pushes.  All coroutine frames are placed on a bump storage (no heap), global operator new
// is counted: any allocation in the measured region comes from the library itself.  Exit 1 when allocations were observed.
#include <cocls/future.h>
#include <cocls/async.h>
#include <cstdio>
#include <cstdlib>
#include <new>
static long allocs = 0; static bool on = false;
void *operator new(std::size_t n) { if (on) allocs++; void *p = malloc(n); if (!p) abort(); return p; }
void operator delete(void *p) noexcept { free(p); }
void operator delete(void *p, std::size_t) noexcept { free(p); }
using namespace cocls;
static char buf[8192];
struct bump { char *p = buf; void *alloc(std::size_t s) { void *r = p; p += (s + 15) & ~15; return r; } static void dealloc(void *, std::size_t) {} };
with_allocator<bump, async<void>> waiter(bump &, future<int> &f, int &cnt) { co_await f; cnt++; }
with_allocator<bump, async<void>> driver(bump &b, int rounds, int &cnt) {
    for (int r = 0; r < rounds; r++) {
        future<int> f; auto p = f.get_promise();
        b.p = buf + 4096;
        waiter(b, f, cnt).detach();      // discarded suspend point: queued (coroutine mode)
        co_await cocls::pause();         // let it subscribe
        p(1);                            // resolve from a coroutine: the waiter goes to the ready queue
        co_await cocls::pause();
    }
}
int main() {
    bump b; int cnt = 0;
    driver(b, 2, cnt).join();            // warm-up
    b.p = buf; on = true; driver(b, 200, cnt).join(); on = false;
    std::printf("resumed=%d allocations_in_measured_region=%ld\n", cnt, allocs);
    return allocs == 0 ? 0 : 1;
}
