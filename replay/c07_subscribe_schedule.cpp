// Schedule replay for the C07 obligation "mutex::subscribe: not suspended <=> the mutex was free at the instant of the push".
// Counterexample of the verifier: the request is pushed while the mutex is HELD (seen != NULL); before the requester looks at its node
// again the holder releases: its unlock() detaches the chain, rebuilds the queue (node->_next = _queue = nullptr) and resumes the node.
// The requester then reads aw->_next == nullptr, concludes that it found the mutex free, and continues as owner too: the same request
// is granted twice (once by resumption, once by "subscribe() == false").
// The interleaving is forced deterministically through the guarded hook COCLS_VERIF_SYNC("mutex.subscribe.published") (compile with
// -DCOCLS_VERIF): the hook itself performs the holder's release.  Exit 1 when the request is granted twice, 0 otherwise.
#include <cocls/mutex.h>
#include <cstdio>
#include <cstring>
#include <cstdlib>
using namespace cocls;
struct mx_access : public mutex { using mutex::ready; using mutex::subscribe; };
static mx_access mx;
static mutex::ownership *holder = nullptr;
static int resumed = 0;
static bool in_hook = false;
struct req_awaiter : public awaiter {
    req_awaiter() { set_resume_fn([](awaiter *, void *) noexcept -> suspend_point<void> { resumed++; return {}; }); }
};
extern "C" void cocls_verif_sync(const char *tag) {
    if (!std::strcmp(tag, "mutex.subscribe.published") && holder && !in_hook) {
        in_hook = true;
        holder->release();          // the holder releases right after the request was published
        in_hook = false;
    }
}
int main() {
    mutex::ownership own = mx.try_lock();                 // the holder
    if (!own) { std::puts("setup failed"); return 2; }
    holder = &own;
    req_awaiter req;
    bool suspended = mx.subscribe(&req);                  // the requester (same thread; the hook plays the other thread)
    int grants = resumed + (suspended ? 0 : 1);
    std::printf("pushed while held: suspended=%d resumed_by_holder=%d grants=%d\n", (int)suspended, resumed, grants);
    std::fflush(stdout);
    if (grants != 1) { std::puts("VIOLATION: the request was granted more than once (double ownership / double resumption)"); std::fflush(stdout); std::_Exit(1); }
    std::_Exit(0);   // skip destructors: the mutex is deliberately left in whatever state the schedule produced
}
