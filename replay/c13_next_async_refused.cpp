// C13 native replay: generator<T,Arg>::promise_type::next_async() records the asker BEFORE it checks whether the coroutine is already
// finished.  On a generator that ended with an exception (done() stays false, so the asynchronous styles do reach next_async) the call
// throws no_more_values_exception - and leaves _caller pointing at the refused awaiter although no request is outstanding.
// The record then says "busy" for ever: the library's own idle check (assert "Generator is busy" in next_async / next_sync /
// next_future) fires on the NEXT access in every build with assertions, and _caller dangles (it usually points to a dead temporary).
// next_sync() and next_future() check first and register afterwards; only next_async() has the two statements the wrong way round.
//   mode refused  : body throws on its first activation; ask asynchronously (next().subscribe(&awaiter), the way generator_aggregator
//                   asks), read the exception, ask again -> no_more_values_exception (correct).  Then look at the record:
//                   expected _caller == nullptr (idle), real code: _caller == &awaiter  -> exit 2.
//   mode again    : the same, then a third access through the blocking style.  Expected: no_more_values_exception again.
//                   Real code built with assertions: abort "Generator is busy".
//   mode co_await : the same as `refused` with a consumer coroutine using co_await g.next(); _caller dangles into the dead next_awt.
// build: g++ -std=c++20 -I/repo/src -fno-access-control -g c13_next_async_refused.cpp   (no -DNDEBUG); exit code 0 = as specified.
#include <cocls/generator.h>
#include <cstdio>
#include <cstring>
using namespace cocls;

static generator<int> throws_at_once(int e) { throw e; co_yield 0; }
static int hits = 0;
static suspend_point<void> on_resume(awaiter *, void *) noexcept { hits++; return {}; }

static int refused(bool again) {
    auto g = throws_at_once(42);
    awaiter asker(&on_resume);
    g.next().subscribe(&asker);                                  // first activation: body throws, asker is resumed
    if (hits != 1) { std::puts("FAIL: asker not resumed exactly once"); return 3; }
    try { g.value(); std::puts("FAIL: exception not reported"); return 3; } catch (int e) { if (e != 42) return 3; }
    bool refused_ok = false;
    try { g.next().subscribe(&asker); } catch (const no_more_values_exception &) { refused_ok = true; }
    if (!refused_ok || hits != 1) { std::puts("FAIL: finished generator did not refuse the request"); return 3; }
    if (g._promise->_caller != nullptr) {
        std::printf("FAIL: request refused (no_more_values_exception) but the record keeps _caller=%p (%s): generator marked busy with no request outstanding\n",
                    (void *)g._promise->_caller, g._promise->_caller == &asker ? "the refused awaiter" : "?");
        if (!again) return 2;
    }
    if (again) {
        try { if (g.next()) { std::puts("FAIL: value after the end"); return 3; } }
        catch (const no_more_values_exception &) { std::puts("OK: third access refused again"); return 0; }
        return 3;
    }
    std::puts("OK: refused request left no trace in the record");
    return 0;
}

struct task { struct promise_type { task get_return_object() { return {}; } std::suspend_never initial_suspend() noexcept { return {}; }
    std::suspend_never final_suspend() noexcept { return {}; } void return_void() {} void unhandled_exception() { std::terminate(); } }; };
static int co_result = -1;
static task consumer(generator<int> &g) {
    bool first = co_await g.next();
    try { if (first) g.value(); } catch (int) {}
    try { co_await g.next(); co_result = 3; co_return; } catch (const no_more_values_exception &) {}
    co_result = g._promise->_caller == nullptr ? 0 : 2;
}
static int with_co_await() {
    auto g = throws_at_once(7);
    consumer(g);
    if (co_result == 2) std::puts("FAIL: co_await g.next() on the finished generator was refused, but _caller still points to the (dead) next_awt temporary");
    else if (co_result == 0) std::puts("OK: refused request left no trace in the record");
    return co_result;
}
int main(int argc, char **argv) {
    const char *mode = argc > 1 ? argv[1] : "refused";
    if (!std::strcmp(mode, "again")) return refused(true);
    if (!std::strcmp(mode, "co_await")) return with_co_await();
    return refused(false);
}
