// C12 replay (b): scheduler::remove()'s find_if matches an entry that was already emptied by an earlier cancel.
//   g++ -std=c++20 -I<repo>/src -fno-access-control -D_GLIBCXX_ASSERTIONS [-fsanitize=address] c12_cancel_dup.cpp -lpthread
// Manual mode.  Three sleeps: two carry the same id X (allowed: "it is canceled always one promise per one cancel request"),
// one with another id and the earliest time point sits on top of the heap.  cancel(X) twice.
// Property C12: cancel(id) completes exactly one pending sleep carrying that id and reports true whenever one is pending.
// exit 0 = as specified (both sleeps with id X cancelled, one per call); exit 1 = a cancel reported false although a sleep with X was pending.
#include <cocls/scheduler.h>
#include <cstdio>
#include <unistd.h>
using namespace cocls;
static void finish_dup(int code) { fflush(stdout); _exit(code); }     // leave without running destructors of futures that are (rightly or wrongly) still pending
static int fut_state(future<void> &f) {           // 0 pending, 1 cancelled (await_canceled_exception), 2 completed normally
    if (!f.ready()) return 0;
    try { f.value(); return 2; } catch (const await_canceled_exception &) { return 1; } catch (...) { return 3; }
}
int c12_cancel_dup_run() {
    scheduler sch;
    int X, Y;
    auto t0 = std::chrono::system_clock::time_point() + std::chrono::seconds(1000);
    future<void> f1 = sch.sleep_until(t0 + std::chrono::seconds(100), &X);
    future<void> ftop = sch.sleep_until(t0 + std::chrono::seconds(50), &Y);
    future<void> f2 = sch.sleep_until(t0 + std::chrono::seconds(200), &X);
    bool c1 = sch.cancel(&X);
    int pendingX_before2 = (fut_state(f1) == 0) + (fut_state(f2) == 0);
    bool c2 = sch.cancel(&X);
    int s1 = fut_state(f1), s2 = fut_state(f2), st = fut_state(ftop);
    printf("cancel1=%d pendingX_before_cancel2=%d cancel2=%d  f1=%d f2=%d (0 pending, 1 cancelled)  other=%d\n", (int)c1, pendingX_before2, (int)c2, s1, s2, st);
    if (!c1 || pendingX_before2 != 1) { printf("unexpected set-up\n"); finish_dup(2); }
    if (st != 0) { printf("FAIL: a sleep with another id was touched\n"); finish_dup(1); }
    if (!c2 || s1 != 1 || s2 != 1) { printf("FAIL: second cancel(X) reported %d while a sleep carrying X was still pending\n", (int)c2); finish_dup(1); }
    bool c3 = sch.cancel(&X);
    if (c3) { printf("FAIL: third cancel(X) reported true, nothing pending\n"); finish_dup(1); }
    finish_dup(0);
    return 0;
}
#ifndef C12_NO_MAIN
int main(int, char **) { return c12_cancel_dup_run(); }
#endif
