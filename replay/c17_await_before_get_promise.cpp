// C17 native replay (open known finding C17-await-before-get-promise): an awaiter that subscribes through a copy of a
// shared_future AFTER init_if_needed() but BEFORE get_promise() is accepted (subscribe() returns true) and then lost.
//   Property clauses: "every awaiter of any copy is resumed exactly once" / "a default-constructed shared_future can be
//   initialised later through get_promise()".
//   init_if_needed() creates the shared state so that copies can be handed out before the producer takes the promise.  The
//   consumer's awaiter is pushed in front of &awaiter::instance; future<T>::get_promise() then overwrites the slot with
//   exchange(nullptr) - the previous content is looked at by a debug assert ("Invalid future state") only - so in a release
//   build the awaiter is silently dropped from the chain: it is never resumed (a coroutine would hang forever).
//   mode early_awaiter : one awaiter before get_promise(), one after; resolution with 42.
//                        exit 0: both resumed exactly once; exit 1: the early awaiter was accepted but never resumed.
// build: g++ -std=c++20 -O1 -I/repo/src -DNDEBUG -fsanitize=address -g c17_await_before_get_promise.cpp
//        (without -DNDEBUG the library's assert in future::get_promise aborts the PRODUCER instead - also a non-zero exit)
#include <cocls/shared_future.h>
#include <cstdio>
using namespace cocls;
struct CountingAwaiter : awaiter {
    int resumed = 0;
    CountingAwaiter() { set_resume_fn([](awaiter *me, void *) noexcept -> suspend_point<void> { static_cast<CountingAwaiter *>(me)->resumed++; return {}; }); }
};
int main(int, char **) {
    shared_future<int> f;
    f.init_if_needed();                                        // state exists, no promise yet
    shared_future<int> copy = f;                               // handed to a consumer (that is what init_if_needed() is for)
    CountingAwaiter early, late;
    bool sub1 = copy.operator co_await().subscribe(&early);   // the consumer starts waiting before the producer has taken the promise
    auto p = f.get_promise();                                  // late initialisation by the producer
    bool sub2 = copy.operator co_await().subscribe(&late);
    p(42);
    std::printf("early awaiter: accepted=%d resumed=%d; late awaiter: accepted=%d resumed=%d; value=%d\n", (int)sub1, early.resumed, (int)sub2, late.resumed, copy.value());
    if (early.resumed != (sub1 ? 1 : 0)) { std::puts("FAIL: the awaiter accepted before get_promise() was not resumed exactly once (lost wake-up)"); return 1; }
    if (late.resumed != (sub2 ? 1 : 0)) { std::puts("FAIL: the awaiter accepted after get_promise() was not resumed exactly once"); return 2; }
    std::puts("OK: every accepted awaiter resumed exactly once");
    return 0;
}
