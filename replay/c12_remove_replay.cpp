// C12 replay driver for unit `remove`: runs the two native scenarios that correspond to its two obligations, each in its own process
// (the first one crashes on the defective code):  (a) c12_remove_empty.cpp - vector::operator[] on the emptied vector,
//                                                  (b) c12_cancel_dup.cpp   - cancel(id) misses a pending sleep behind an emptied entry.
// exit 0 = both behave as property C12 says; otherwise 10*[a misbehaves] + [b misbehaves] (11 = both).
#define C12_NO_MAIN 1
#include "c12_remove_empty.cpp"
#include "c12_cancel_dup.cpp"
#include <sys/wait.h>
static int run_child(const char *name, int (*fn)()) {
    fflush(stdout);
    pid_t pid = fork();
    if (pid == 0) { int r = fn(); fflush(stdout); _exit(r); }
    int st = 0; waitpid(pid, &st, 0);
    int code = WIFEXITED(st) ? WEXITSTATUS(st) : 128 + WTERMSIG(st);
    printf("[%s] exit %d => %s\n", name, code, code == 0 ? "as specified" : "MISBEHAVES");
    return code;
}
int main(int, char **) {
    int a = run_child("a: repeated cancel after expiry (c12_remove_empty)", c12_remove_empty_run);
    int b = run_child("b: second cancel of a duplicated id (c12_cancel_dup)", c12_cancel_dup_run);
    return (a ? 10 : 0) + (b ? 1 : 0);
}
