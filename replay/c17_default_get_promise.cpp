// C17 native replay: shared_future<int>::init_if_needed() has an inverted test (`if (_ptr)` instead of `if (!_ptr)`).
//   mode default_get_promise : get_promise() on a default-constructed shared_future (documented late initialisation).
//                              Real code: init_if_needed() does nothing, _ptr->get_promise() dereferences a null shared_ptr
//                              (SIGSEGV / ASan SEGV / _GLIBCXX_ASSERTIONS abort).  Expected: promise bound to a new shared
//                              state, copies see the value 42 once it is resolved, state freed once.
//   mode init_keeps_state    : init_if_needed() on an already initialised (pending) shared_future must do nothing.
//                              Real code: it REPLACES the shared state, so the handle no longer sees the result that its
//                              own copies see (exit 3).
// build: g++ -std=c++20 -I/repo/src -fsanitize=address -g c17_default_get_promise.cpp ; exit code 0 = behaves as specified.
#include <cocls/shared_future.h>
#include <cstdio>
#include <cstring>
using namespace cocls;

static int default_get_promise() {
    shared_future<int> f;                      // default constructed: no shared state yet
    auto p = f.get_promise();                  // must create the state and return a promise bound to it
    shared_future<int> g = f;                  // a copy shares the state
    if (f.ready() || g.ready()) { std::puts("FAIL: ready before resolution"); return 2; }
    p(42);
    if (!f.ready() || !g.ready()) { std::puts("FAIL: not ready after resolution"); return 2; }
    if (f.value() != 42 || g.value() != 42 || &f.value() != &g.value()) { std::puts("FAIL: copies do not observe the same single result"); return 2; }
    std::printf("OK: default-constructed shared_future initialised through get_promise(); value=%d seen by both copies\n", g.value());
    return 0;
}
static int init_keeps_state() {
    promise<int> keep;
    shared_future<int> f([&](promise<int> p) { keep = std::move(p); });   // initialised, pending
    shared_future<int> g = f;                                             // copy of the same state
    f.init_if_needed();                                                   // "initializes object if needed, otherwise does nothing"
    keep(7);
    if (!g.ready() || g.value() != 7) { std::puts("FAIL: copy not resolved"); return 2; }
    if (!f.ready()) { std::puts("FAIL: init_if_needed() replaced the shared state of an initialised shared_future: the handle no longer observes the result its copy observes"); return 3; }
    if (&f.value() != &g.value()) { std::puts("FAIL: different states"); return 3; }
    std::puts("OK: init_if_needed() left the initialised shared_future alone");
    return 0;
}
int main(int argc, char **argv) {
    const char *mode = argc > 1 ? argv[1] : "default_get_promise";
    if (!std::strcmp(mode, "init_keeps_state")) return init_keeps_state();
    return default_get_promise();
}
