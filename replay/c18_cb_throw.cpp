// C18 / audit E-D6: "A completion registered through callback_await ... runs exactly once per awaited operation - with the operation's value, or
// its exception or broken-promise state".  callback_await_coro is `try { fn(result) } catch (...) { fn(exception state) }`: a completion that
// throws while it handles the VALUE is invoked a second time, now in exception state with ITS OWN exception presented as the operation's.
// Same scenario function (drivers/c18_drive.cpp: c18_drive_cbthrow) and oracle as the bounded drives drive_cbthrow_* of specs/C18/h_drive.c, real g++ coroutines.
// Deterministic: outcome (value / exception / dropped) x timing (resolved before / after registration) x callback throws or not.
// Build: g++ -std=c++20 -O1 -g -fsanitize=address,undefined -I/repo/src -I/verif/drivers replay/c18_cb_throw.cpp -o /tmp/c18_d6 -lpthread
// Run:   /tmp/c18_d6 [D6] [in_outcome=0..2] [in_throws=0|1] [in_v=..] [in_e=..]     exit 0 = property holds, 1 = violation (each one printed).
#include "../drivers/c18_drive.cpp"
#include <cstdio>
#include <cstdlib>
#include <cstring>
#include <new>
static long n_new = 0, n_del = 0;
void *operator new(std::size_t n) { ++n_new; void *p = std::malloc(n ? n : 1); if (!p) std::abort(); return p; }
void operator delete(void *p) noexcept { if (p) { ++n_del; std::free(p); } }
void operator delete(void *p, std::size_t) noexcept { if (p) { ++n_del; std::free(p); } }
extern "C" void c18_probe(int) {}
int main(int argc, char **argv) {
    int v = 42, e = 7, only_outcome = -1, only_throws = -1;
    for (int i = 1; i < argc; ++i) {
        if (!std::strncmp(argv[i], "in_v=", 5)) v = std::atoi(argv[i] + 5);
        if (!std::strncmp(argv[i], "in_e=", 5)) e = std::atoi(argv[i] + 5);
        if (!std::strncmp(argv[i], "in_outcome=", 11)) only_outcome = std::atoi(argv[i] + 11);
        if (!std::strncmp(argv[i], "in_throws=", 10)) only_throws = std::atoi(argv[i] + 10) != 0;
    }
    std::memset(&g_rec, 0, sizeof(g_rec)); c18_drive_cbthrow(0, 0, 0, 1, 1);       // warm-up: the thread_local ready queue allocates on first use
    int bad = 0;
    static const char *oname[] = {"value", "exception", "dropped promise"};
    for (int outcome = 0; outcome <= 2; ++outcome) for (int before = 0; before <= 1; ++before) for (int throws = 0; throws <= 1; ++throws) {
        if ((only_outcome >= 0 && outcome != only_outcome) || (only_throws >= 0 && throws != only_throws)) continue;
        std::memset(&g_rec, 0, sizeof(g_rec)); long a0 = n_new, f0 = n_del;
        c18_drive_cbthrow(outcome, before, throws, v, e);
        bool once = g_rec.calls == 1;
        bool timing = before ? g_rec.calls_at_return >= 1 : g_rec.calls_at_return == 0;
        bool out = outcome == 0 ? (g_rec.has_value == 1 && g_rec.value == v && g_rec.exc_canceled + g_rec.exc_error + g_rec.exc_other == 0)
                 : outcome == 1 ? (g_rec.has_value == 0 && g_rec.exc_error == 1 && g_rec.exc_code == e && g_rec.exc_canceled + g_rec.exc_other == 0)
                 :                (g_rec.has_value == 0 && g_rec.exc_canceled == 1 && g_rec.exc_error + g_rec.exc_other == 0);
        bool heap = n_new - a0 == 1 && n_del - f0 == 1;      // the coroutine frame (exception objects do not come from operator new)
        bool ok = once && timing && out && heap;
        std::printf("%s callback_await: operation=%s, resolved %s registration, callback %s: callback ran %d time(s)%s%s%s\n", ok ? "ok       " : "VIOLATION", oname[outcome],
                    before ? "before" : "after ", throws ? "throws " : "returns", g_rec.calls, timing ? "" : " [timing]", out ? "" : " [first call saw a wrong outcome]", heap ? "" : " [heap blocks not balanced]");
        bad += !ok;
    }
    std::printf("%d violation(s)\n", bad);
    return bad ? 1 : 0;
}
