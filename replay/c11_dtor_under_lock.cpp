// C11 - native reproduction: thread_pool::worker() destroys the executed closure WHILE HOLDING the pool mutex.
//   g++ -std=c++20 -I/repo/src -pthread c11_dtor_under_lock.cpp && ./a.out
// worker():   auto h = std::move(_queue.front()); _queue.pop(); lk.unlock(); h(); if (_current == nullptr) return; lk.lock();  }   <- h dies here
// The closure object `h` (and with it every captured object of the user's job) is destroyed at the end of the loop body, i.e. AFTER lk.lock().
// A destructor of captured state that touches the pool (submits follow-up work, asks is_stopped(), stops the pool ...) therefore locks the
// non-recursive std::mutex a second time on the same thread: the worker dead-locks (formally undefined behaviour), every later job and stop()
// / ~thread_pool hang with it.  Posting a continuation from the destructor of the last owner of some state is an ordinary pattern.
// Exit code: 0 = the job's captured state was destroyed and the follow-up job ran; 1 = the worker is stuck (the real code misbehaves). Never hangs.
#include <cocls/thread_pool.h>
#include <atomic>
#include <chrono>
#include <cstdio>
#include <cstdlib>
#include <memory>
#include <thread>
using namespace cocls;
using namespace std::chrono_literals;

static std::atomic<int> g_ran{0}, g_follow_up{0}, g_state_destroyed{0};
struct State {                       // shared state whose last owner is the job; its destructor posts a follow-up job to the same pool
    thread_pool *pool;
    explicit State(thread_pool *p) : pool(p) {}
    ~State() { pool->run_detached([]{ g_follow_up++; }); g_state_destroyed++; }
};

int main() {
    auto *pool = new thread_pool(1);
    {
        auto st = std::make_shared<State>(pool);
        pool->run_detached([st]{ g_ran++; });
    }                                // from here on the queued closure is the only owner of the State
    bool done = false;
    for (int i = 0; i < 400 && !done; i++) { done = g_ran == 1 && g_state_destroyed == 1 && g_follow_up == 1; if (!done) std::this_thread::sleep_for(5ms); }
    std::printf("job_ran=%d captured_state_destroyed=%d follow_up_job_ran=%d\n", g_ran.load(), g_state_destroyed.load(), g_follow_up.load());
    if (!done) std::printf("RESULT: the worker is stuck inside the destructor of the executed closure (pool mutex held while the closure is destroyed)\n");
    else std::printf("RESULT: closure destroyed with the pool mutex released; follow-up job ran\n");
    std::fflush(stdout);
    std::_Exit(done ? 0 : 1);       // no destructors: ~thread_pool would hang on the stuck worker
}
