// C16 native replay (audit D6): "... a copy of a subscriber continues independently from the original's position", and (all_values) end-of-stream
// "only when the publisher is closed and drained, when it is kicked, or when it has fallen more than the configured maximum queue length behind".
// What it shows: a subscriber that is PARKED in next() is already registered for the position it waits for (advance_suspend_lk does l._pos++
// before parking) - one past the last value it received.  queue::subscribe_lk(h, sub) copies that registration position, so the copy
// believes it has already consumed the item the original is still waiting for:
//   api   (a) copy awaits before the next publish -> its first next() runs past the stream: END-OF-STREAM on an open, un-kicked publisher;
//         (b) copy awaits after the next publish  -> that item is skipped: the copy does NOT continue from the original's position;
//   steps the same with the lock-atomic steps called one by one (-fno-access-control), plus the oracle on position():
//         right after the copy, copy.position() must be the position of the last value the original received.
// Single thread, deterministic.  Published values are their own stream positions (1,2,...).
// Build: g++ -std=c++20 -I/repo/src -fno-access-control c16_copy_parked.cpp -lpthread
// Usage: c16_copy_parked [mode] [name=value ...]   modes: copy (default: api + steps) | api | steps ; name=value arguments of tools/replay.py
//        are accepted and ignored (input independent).
// Exit 0: the copy receives exactly what the original receives from the copy point on.  Exit 1: bogus end-of-stream / skipped item / wrong position.
#include <cocls/publisher.h>
#include <cocls/async.h>
#include <cstdio>
#include <cstring>
#include <vector>
using namespace cocls;
struct log_t { std::vector<int> got; bool eof = false; bool eof_before_close = false; };
static bool g_closed = false;
static async<void> consumer(subscriber<int> &sub, log_t &l) {
    for (;;) { bool more = co_await sub.next(); if (!more) break; l.got.push_back(sub.value()); }
    l.eof = true; l.eof_before_close = !g_closed;
}
static void show(const char *n, const log_t &l) {
    std::printf("%s:", n); for (int v : l.got) std::printf(" %d", v);
    std::printf("%s\n", l.eof_before_close ? "  [END-OF-STREAM BEFORE close()]" : (l.eof ? "  [end-of-stream after close()]" : ""));
}
static int scenario_api() {
    int bad = 0;
    {   // (a)
        g_closed = false;
        publisher<int> pub; subscriber<int> s1(pub); log_t l1, l2;
        consumer(s1, l1).detach();                 // parks: nothing published yet
        subscriber<int> s2(s1);                    // copy of the parked subscriber
        consumer(s2, l2).detach();
        pub.publish(1); pub.publish(2); g_closed = true; pub.close();
        std::printf("api (a) copy taken while the original is parked in co_await next(); the copy awaits at once\n"); show("    original", l1); show("    copy    ", l2);
        if (l2.eof_before_close || l2.got != l1.got) { std::printf("    DEFECT: the copy got end-of-stream on an open publisher / did not continue from the original's position\n"); bad = 1; }
    }
    {   // (b)
        g_closed = false;
        publisher<int> pub; subscriber<int> s1(pub); log_t l1, l2;
        consumer(s1, l1).detach();
        subscriber<int> s2(s1);
        pub.publish(1);                            // the original receives 1
        consumer(s2, l2).detach();                 // the copy starts reading only now
        pub.publish(2); g_closed = true; pub.close();
        std::printf("api (b) copy taken while the original is parked; the copy starts reading after one more publish\n"); show("    original", l1); show("    copy    ", l2);
        if (l2.eof_before_close || l2.got != l1.got) { std::printf("    DEFECT: the copy skipped the item the original was waiting for\n"); bad = 1; }
    }
    {   // control: copy of a subscriber that is not parked
        g_closed = false;
        publisher<int> pub; subscriber<int> s1(pub); log_t l1, l2;
        subscriber<int> s2(s1);
        consumer(s1, l1).detach(); consumer(s2, l2).detach();
        pub.publish(1); pub.publish(2); g_closed = true; pub.close();
        std::printf("api (control) copy of an idle subscriber\n"); show("    original", l1); show("    copy    ", l2);
        if (l2.eof_before_close || l2.got != l1.got || l1.got != std::vector<int>{1, 2}) { std::printf("    control failed\n"); bad |= 2; }
    }
    return bad;
}
// the steps of `co_await sub.next()`: ready() [await_ready], subscribe(awt) [await_suspend], check_next() [await_resume]
static int scenario_steps() {
    int bad = 0;
    publisher<int> pub; subscriber<int> s1(pub);
    pub.publish(1);
    bool r = s1.ready() && s1.check_next();                    // the original receives position 1
    std::size_t delivered = s1.position();                     // = 1: the original's position
    bool rdy = s1.ready();                                     // next(): nothing new
    sync_awaiter awt; bool parked = !rdy && s1.subscribe(&awt);     // parked
    subscriber<int> s2(s1);                                    // copy of the parked original
    std::size_t cp = s2.position();
    std::printf("steps: original received %d (position %zu), then parked=%d; copy.position()=%zu\n", r ? s1.value() : -1, delivered, (int)parked, cp);
    if (!r || !parked) { std::printf("  unexpected: scenario did not park\n"); return 2; }
    if (cp != delivered) { std::printf("  DEFECT: the copy does not stand at the original's position (last received %zu), it stands at %zu\n", delivered, cp); bad = 1; }
    bool c_rdy = s2.ready(); bool c_val = c_rdy && s2.check_next();   // the copy's next() on an OPEN publisher with nothing new: must be "nothing yet" (not ready)
    if (c_rdy && !c_val) { std::printf("  DEFECT: the copy's next() reports END-OF-STREAM (publisher open, not kicked, nothing missed)\n"); bad = 1; }
    else std::printf("  copy.next() before the publish: ready=%d\n", (int)c_rdy);
    pub.publish(2);                                            // wakes the original
    bool o2 = s1.check_next(); int ov = o2 ? s1.value() : -1;
    std::printf("  after publish(2): original woken=%d receives %d\n", (int)awt.flag.load(), ov);
    if (!bad) {                                               // only meaningful when the copy did not already run off the stream
        bool c2 = (c_rdy ? false : s2.ready()) && s2.check_next(); int cv = c2 ? s2.value() : -1;
        std::printf("  copy receives %d\n", cv);
        if (cv != ov) { std::printf("  DEFECT: the copy does not receive what the original received after the copy point\n"); bad = 1; }
    }
    return bad;
}
int main(int argc, char **argv) {
    const char *mode = argc > 1 ? argv[1] : "copy";
    int bad = 0;
    if (std::strcmp(mode, "steps")) bad |= scenario_api();
    if (std::strcmp(mode, "api")) bad |= scenario_steps();
    if (bad) std::printf("VIOLATION (mask %d)\n", bad); else std::printf("ok: the copy continues from the original's position\n");
    return bad ? 1 : 0;
}
