// C19 observation (outside the verified contract: the contract ASSUMES the factory of promise_extra_storage does not throw).
// promise_extra_storage<T,Alloc>::alloc obtains the block from Alloc::alloc and THEN runs the user factory; if the factory throws,
// the coroutine is never created, nobody ever calls dealloc, and
//   - with Alloc = default_storage the block leaks (LeakSanitizer: "sz + sizeof(T)" bytes),
//   - with Alloc = reusable_storage_mtsafe the busy flag stays set for ever: every later frame silently goes to the heap.
// Build:  g++ -std=c++20 -I/repo/src -fno-access-control -fsanitize=address -g c19_extra_factory_throws.cpp -o t && ./t [leak|busy]
// exit code != 0 = the real code misbehaves (leak mode: LeakSanitizer aborts at exit; busy mode: returns 1).
#include <cocls/async.h>
#include <cocls/coro_storage.h>
#include <cstdio>
#include <cstring>
#include <stdexcept>
using namespace cocls;
int main(int argc, char **argv) {
    const char *mode = argc > 1 ? argv[1] : "leak";
    if (!std::strcmp(mode, "leak")) {
        promise_extra_storage<long> st([]() -> long { throw std::runtime_error("factory failed"); });
        try { st.alloc(100); } catch (const std::exception &) { std::puts("factory threw; the 100+8 byte block from default_storage::alloc is now unreachable"); }
        return 0;   // LeakSanitizer reports the leak and makes the exit code non-zero
    } else {
        promise_extra_storage<long, reusable_storage_mtsafe> st([]() -> long { throw std::runtime_error("factory failed"); });
        try { st.alloc(100); } catch (const std::exception &) {}
        bool busy = st._busy.load();
        std::printf("busy flag after the failed alloc: %d (no frame exists)\n", (int)busy);
        return busy ? 1 : 0;
    }
}
