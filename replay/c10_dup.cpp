// Native reproduction for C10 (bounded queue): limited_queue<int>::push stores the item in the item queue AND in _blocked
// once size >= limit, so the item is delivered twice; it also blocks one push too early.
// Build: g++ -std=c++20 -I/repo/src -fno-access-control replay/c10_dup.cpp -lpthread ; exit status != 0 <=> the real code misbehaves.
// Arguments (all optional, given by the runner as "<mode> name=value ..."): limit=<n> (default 2, clamped to 1..64).
// Reference model: plain FIFO with capacity `limit` + FIFO of blocked producers (the property statement of C10).
#include <cocls/queue.h>
#include <cstdio>
#include <cstdlib>
#include <cstring>
#include <deque>
#include <memory>
#include <vector>

static int failures = 0;
#define EXPECT(cond, ...) do { if (!(cond)) { ++failures; std::printf("MISMATCH: " __VA_ARGS__); std::printf("   [%s]\n", #cond); } } while (0)

int main(int argc, char **argv) {
    unsigned long limit = 2;
    for (int i = 1; i < argc; ++i) {
        if (!std::strncmp(argv[i], "limit=", 6)) limit = std::strtoul(argv[i] + 6, nullptr, 0);
        if (!std::strncmp(argv[i], "gh_limit=", 9)) limit = std::strtoul(argv[i] + 9, nullptr, 0);
        if (!std::strncmp(argv[i], "in_limit=", 9)) limit = std::strtoul(argv[i] + 9, nullptr, 0);
    }
    if (limit < 1 || limit > 64) limit = 2;
    const int n_push = int(limit) + 2;                 // `limit` pushes must complete at once, 2 more must block

    cocls::limited_queue<int> q(limit);
    auto &base = (cocls::queue<int> &)q;            // protected base: unblock_pop is not re-exported by limited_queue (C-style cast reaches it)
    std::vector<std::unique_ptr<cocls::future<void> > > pf;   // futures of the pushes (not movable while pending)
    std::deque<int> ref_items, ref_blocked;            // reference model

    // ---- phase 1: pushes 1..limit+2, no consumer waiting
    for (int v = 1; v <= n_push; ++v) {
        pf.emplace_back(new cocls::future<void>(q.push(int(v))));
        bool expect_ready = ref_items.size() < limit;
        if (expect_ready) ref_items.push_back(v); else ref_blocked.push_back(v);
        EXPECT(pf.back()->ready() == expect_ready, "push(%d) with %zu item(s) waiting, limit %lu: future ready=%d, expected %d\n",
               v, ref_items.size() - (expect_ready ? 1 : 0), limit, int(pf.back()->ready()), int(expect_ready));
        EXPECT(q.size() == ref_items.size(), "after push(%d): size()=%zu, expected %zu (blocked items are not in the queue)\n", v, q.size(), ref_items.size());
        EXPECT(q._blocked.size() == ref_blocked.size(), "after push(%d): %zu blocked producer(s), expected %zu\n", v, q._blocked.size(), ref_blocked.size());
    }
    // ---- phase 2: pop everything that the reference model can deliver; each pop completes at most the oldest blocked push
    int popped = 0;
    while (!ref_items.empty()) {
        cocls::future<int> f = q.pop();
        EXPECT(f.ready(), "pop #%d must complete immediately (reference holds %zu item(s))\n", popped + 1, ref_items.size());
        if (!f.ready()) { base.unblock_pop(std::make_exception_ptr(0)); break; }
        int got = f.value();
        int want = ref_items.front(); ref_items.pop_front();
        EXPECT(got == want, "pop #%d delivered %d, expected %d (push order, each item exactly once)\n", popped + 1, got, want);
        ++popped;
        if (!ref_blocked.empty()) {
            int b = ref_blocked.front(); ref_blocked.pop_front(); ref_items.push_back(b);
            EXPECT(pf[b - 1]->ready(), "pop #%d must complete the oldest blocked push (%d)\n", popped, b);
        }
        for (int k : ref_blocked) EXPECT(!pf[k - 1]->ready(), "push(%d) must still be blocked after pop #%d\n", k, popped);
        EXPECT(q.size() == ref_items.size(), "after pop #%d: size()=%zu, expected %zu\n", popped, q.size(), ref_items.size());
    }
    // ---- phase 3: the queue must now be empty: a further pop stays pending (otherwise an item was duplicated)
    {
        int extra = 0;
        while (q.size() != 0 && extra < 2 * n_push) { cocls::future<int> f = q.pop(); if (!f.ready()) { base.unblock_pop(std::make_exception_ptr(0)); break; }
            std::printf("MISMATCH: surplus item %d delivered after all %d pushed items were popped (duplicate)\n", f.value(), n_push); ++failures; ++extra; }
    }
    // release whatever is still pending so that the futures can be destroyed
    while (q._blocked.size()) q.unblock_push(std::make_exception_ptr(0));
    for (auto &f : pf) EXPECT(!f->pending(), "a push future is still pending at the end\n");
    std::printf("c10_dup: limit=%lu pushes=%d pops=%d mismatches=%d\n", limit, n_push, popped, failures);
    return failures ? 1 : 0;
}
